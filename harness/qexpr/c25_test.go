package qexpr

import (
	"flag"
	"fmt"
	"math/big"
	"sort"
	"strings"
	"testing"

	"github.com/apmckinlay/gsuneido/compile/ast"
	"github.com/apmckinlay/gsuneido/core"
	"github.com/apmckinlay/gsuneido/core/types"
	qry "github.com/apmckinlay/gsuneido/dbms/query"
	"pgregory.net/rapid"
	"verifharness/internal/ev"
	"verifharness/internal/gen"
	"verifharness/internal/kf"
	"verifharness/internal/rt"
)

const rowsPerExpr = 3

// term result classes of the conjuncts of a where expression
const (
	tTrue = iota
	tFalse
	tRaise
	tOther // a value that is neither true nor false
)

func classOf(r lres) int {
	switch {
	case r.raised:
		return tRaise
	case r.v == core.True:
		return tTrue
	case r.v == core.False:
		return tFalse
	}
	return tOther
}

func resLabel(r lres) string {
	if r.raised {
		return "raise"
	}
	if isBool(r.v) {
		return fmt.Sprint(r.v)
	}
	return strings.ToLower(r.v.Type().String())
}

// TestC25: query where/extend expressions evaluate like language expressions.
func TestC25(t *testing.T) {
	rec := ev.New("C25", "rapid: expression tree (depth <= 3) over columns a,b,c and literal constants using every operator the query parser accepts "+
		"(is isnt < <= > >= =~ !~, and or not, + - * / % unary + - ~, & | ^ << >>, $, in / not in, lower+upper bound conjunctions (InRange rewrite), or-of-is (In rewrite), ?:, "+
		"s[i..j] s[i::n] s[i], |>, calls of Number? String? Date? Boolean? Max Min Cmp Type); "+fmt.Sprint(rowsPerExpr)+" valuations per expression, each column drawn from the expression's constants, their neighbours, "+
		"fresh numbers (small, int64 boundaries, decimals incl. integer valued and +-inf), \"\", strings (arbitrary bytes), dates, timestamps, booleans. "+
		"Each valuation is stored as the only row of t0 (key only) and t1 (index(a) index(b,c)), `t where e` and `t extend x = e` run through ParseQuery/Setup/Get, compared with "+
		"function(a,b,c){ return e } called by the interpreter on the unpacked row values. One evaluation = one expression x row valuation. "+
		"Non-trivial: expression with >= 2 operators of which >= 1 operator node is evaluated on packed values in the where form (flags left by CanEvalRaw, read through ast.VerifEvalRaw); distinct = expression text + packed row.")
	rec.Assumptions = []string{
		"where is a conjunction of restrictions: for a top-level `and` every conjunct is judged separately by the language; 1 row needs all true, 0 rows needs one not-true conjunct, a raise needs one raising/non-boolean conjunct (the engine may test conjuncts in any order, through an index, or detect a conflict)",
		"a where whose value is neither true nor false may select nothing or raise",
		"values are equal when their packed forms are equal (canonical encoding, property C13)",
		"the language gets Unpack(stored value): number representations are those the engine itself produces",
		"a raise is any panic (Suneido exception or Go runtime error such as the integer divide by zero of 0 % 0, which the language produces as well); messages are not compared",
	}
	defer rec.Write()
	defer func() {
		if theDb != nil {
			theDb.db.Close()
			theDb = nil
		}
	}()

	// shrinking re-runs three database round trips per attempt: bound it, so a
	// failing run stays well inside the driver's time limit on a loaded machine
	flag.Set("rapid.shrinktime", "10s")
	rt.Check(t, rec, "where_extend_vs_language", 3000, 66000, func(t *rapid.T) {
		g := &gctx{t: t, colKind: map[string]kind{}}
		for _, c := range cols {
			g.colKind[c] = kind(gen.Weighted(t, "colkind", []int{6, 4, 2, 1, 2}))
		}
		depth := 1 + gen.Weighted(t, "depth", []int{2, 4, 3})
		var e *node
		arith := gen.Chance(t, "arith", 23)
		switch {
		case arith: // arithmetic chains over numeric columns
			for _, c := range cols {
				g.colKind[c] = kNum
			}
			e = g.arith()
			rec.Label("gen_arithmetic")
		case gen.Chance(t, "boolTop", 70):
			e = g.expr(kBool, depth)
		default:
			e = g.expr(kAny, depth)
		}
		src := e.String()
		rows := make([][]*val, rowsPerExpr)
		for i := range rows {
			for _, c := range cols {
				if arith {
					rows[i] = append(rows[i], g.arithRowValue(c))
				} else {
					rows[i] = append(rows[i], g.rowValue(c))
				}
			}
		}
		checkExpr(t, rec, e, src, rows)
	})
}

// checkExpr judges one expression on its valuations.
func checkExpr(t *rapid.T, rec *ev.Rec, e *node, src string, rows [][]*val) {
	d := getDb()
	whole := compileFn("a,b,c", src)
	terms := e.andTerms()
	termFns := make([]langFn, len(terms))
	if len(terms) == 1 {
		termFns[0] = whole
	} else {
		for i, tm := range terms {
			termFns[i] = compileFn("a,b,c", tm.String())
		}
	}
	rq := newRequest(t, rec, e, src)
	ri := observeRaw(src)
	nops := e.nops()
	nt := nops >= 2 && ri.ok && ri.rawNodes >= 1

	// per expression labels
	seen := map[string]bool{}
	e.walk(func(n *node) {
		if !n.atom() && !seen[n.opName()] {
			seen[n.opName()] = true
			rec.Label("op_" + n.opName())
		}
	})
	switch {
	case !ri.ok:
		rec.Label("path_expression_refused_by_parser")
	case ri.whole:
		rec.Label("path_where_all_raw")
	case ri.rawNodes > 0:
		rec.Label("path_where_raw_and_value")
	default:
		rec.Label("path_where_all_value")
	}
	rec.LabelIf(ri.inRange > 0, "folder_InRange")
	rec.LabelIf(ri.in > 0, "folder_or_written_In")
	kinds := make([]string, 0, len(ri.rawKinds))
	for k := range ri.rawKinds {
		kinds = append(kinds, k)
	}
	sort.Strings(kinds)
	for _, k := range kinds {
		rec.Label("rawnode_" + k)
	}
	rec.Label(fmt.Sprintf("nops_%d", min(nops, 6)))

	fns := newExprFns()
	fns.fns[e] = whole
	emptyOr := orWithEmptyRange(src)
	emptyDup := emptyPointDup(src)
	refold := rq.shape != "plain" && absorbingConstKept(src)
	refoldConsts := rq.shape != "plain" && multiConstAndOr(src)
	poolMerge := constPoolMerge(src)
	for rowi, row := range rows {
		var canon strings.Builder
		canon.WriteString(src)
		for i := range cols {
			fmt.Fprintf(&canon, "|%x", row[i].packed)
		}
		args := rowArgs(row)
		lr := whole.call(args...)

		// operand pairs reached by comparisons
		w := newWalk(fns, row)
		mv, mok := w.eval(e)
		w.subAsAdd = w.subAsAddDiffers(e)
		if mok != !lr.raised || (mok && !sameValue(mv, lr.v)) {
			rec.Label("controlflow_walk_differs_from_compiled_whole")
			if rowi == 0 && rec.WantSample("walk_differs") {
				rec.Sample("walk_differs", fmt.Sprintf("%s | a=%v b=%v c=%v | compiled whole: %v | walk: %v %v", src, row[0], row[1], row[2], lr, mv, mok))
			}
		}

		// the where form judges every conjunct by itself: walk each one
		ww := newWalk(fns, row)
		if len(terms) == 1 {
			ww = w
		} else {
			for _, tm := range terms {
				tw := newWalk(fns, row)
				tw.eval(tm)
				tw.subAsAdd = tw.subAsAddDiffers(tm)
				ww.merge(tw)
			}
		}

		if divisorChainInexact(w, e) {
			rec.Label("muldiv_2+_nonconst_divisors_inexact_first_quotient")
		}
		rec.Case(nt, canon.String())
		rec.Label("lang_" + resLabel(lr))

		d.put(row)
		func() {
			tb := gen.Pick(t, "table", tables)
			rec.Label("table_" + tb)
			rec.LabelIf(rq.boundHit(row), "valuation_equals_bound_of_range_on_renamed_column")
			whereQ, extendQ := rq.texts(tb)
			wo := d.query(whereQ, "")
			xo := d.query(extendQ, "x")
			brief := func() map[string]any {
				return map[string]any{"expr": src, "row": fmt.Sprint(row), "lang": lr.String(), "where": wo.String(), "where_strategy": wo.strat,
					"extend": xo.String(), "raw_nodes": ri.rawNodes, "value_nodes": ri.valNodes}
			}
			info := func() string {
				// diagnosis only: the same requests again, and the table contents
				again := fmt.Sprintf("\nagain:  where %v | extend %v | %s holds %v, %s holds %v", d.query(whereQ, ""), d.query(extendQ, "x"),
					tables[0], d.query(tables[0], "k"), tables[1], d.query(tables[1], "k"))
				return again + "\nrequests: " + whereQ + "  |  " + extendQ + fmt.Sprintf("\nexpr:   %s\nrow:    a=%v b=%v c=%v\npacked: a=%x b=%x c=%x\nlang:   %v\nwhere:  %v   [%s]\nextend: %v   [%s]\nraw: whole=%v rawNodes=%d valueNodes=%d",
					src, row[0], row[1], row[2], row[0].packed, row[1].packed, row[2].packed, lr, wo, wo.strat, xo, xo.strat, ri.whole, ri.rawNodes, ri.valNodes)
			}

			// known findings: narrow predicates on the generated case
			known := func(flag bool, key, suffix string) bool {
				if !flag {
					return false
				}
				f, ok := kf.Known("C25", key)
				if ok {
					rec.Excluded(key + suffix)
					rec.Known(f.What)
				}
				return ok
			}

			if known(poolMerge, "compiler-constant-pool-lossy-merge", "") {
				return // the language function is not the expression
			}

			// ---- extend form: exact (value path, no reordering)
			switch {
			case known(w.subAsAdd, "subtraction-as-add-negation", " (extend form)"):
			case known(w.bitShort, "bitop-short-circuit", " (extend form)"):
			case known(w.divFirst, "const-numerator-division", " (extend form)"):
			default:
				judgeExtend(t, rec, lr, xo, info, brief, rowi == 0)
			}

			// ---- where form
			if ww.documented {
				// the documented exception: "" ordered against a boolean or number
				// on stored encodings (compile/ast/expr.go packedCmp/strictCompare,
				// options.StrictCompareDb; CanBeEmpty: `raw where "" is less than everything`)
				rec.Excluded("documented: \"\" ordered against boolean/number on stored encodings (where form)")
				return
			}
			switch {
			case known(ww.subAsAdd, "subtraction-as-add-negation", " (where form)"),
				known(ww.bitShort, "bitop-short-circuit", " (where form)"),
				known(ww.divFirst, "const-numerator-division", " (where form)"),
				known(ww.lossy, "int64-dnum-lossy-compare", " (where form)"),
				known(ww.negPrefix, "negative-number-packed-prefix-order", " (where form)"),
				known(refold, "transform-refold-drops-operands", " (where form)"),
				known(refoldConsts, "transform-refold-combines-constants", " (where form)"),
				known(emptyOr, "or-with-empty-range", " (where form)"),
				known(emptyDup && tb == "t1", "composite-index-empty-point-duplicates", " (where form)"):
				return
			}
			judgeWhere(t, rec, termFns, args, wo, info, brief, rowi == 0)
			if nt && rowi == 0 && nops >= 3 && rec.WantSample("nontrivial") {
				rec.Sample("nontrivial", brief())
			}
		}()
	}
}

func sameValue(a, b core.Value) bool {
	pa, oka := a.(core.Packable)
	pb, okb := b.(core.Packable)
	if !oka || !okb {
		return a.Equal(b)
	}
	return core.Pack(pa) == core.Pack(pb)
}

func judgeExtend(t *rapid.T, rec *ev.Rec, lr lres, xo outcome, info func() string, brief func() map[string]any, sample bool) {
	switch {
	case lr.raised && xo.raised:
		rec.Label("extend_both_raise")
		rec.LabelIf(xo.runtime, "extend_both_raise_go_runtime_error")
		if sample && rec.WantSample("extend_both_raise") {
			rec.Sample("extend_both_raise", brief())
		}
	case lr.raised:
		t.Fatalf("extend: language raises, query returns a value%s", info())
	case xo.raised:
		t.Fatalf("extend: query raises, language returns a value%s", info())
	default:
		if xo.n != 1 {
			t.Fatalf("extend: %d rows instead of 1%s", xo.n, info())
		}
		p, ok := lr.v.(core.Packable)
		if !ok {
			t.Fatalf("extend: language result is not storable but the query returned a value%s", info())
		}
		if core.Pack(p) != xo.x {
			t.Fatalf("extend: value differs from the language%s", info())
		}
		rec.Label("extend_same_value")
	}
}

func judgeWhere(t *rapid.T, rec *ev.Rec, termFns []langFn, args []core.Value, wo outcome, info func() string, brief func() map[string]any, sample bool) {
	allTrue, canZero, canRaise := true, false, false
	var cls []string
	for _, f := range termFns {
		c := classOf(f.call(args...))
		cls = append(cls, [...]string{"T", "F", "R", "N"}[c])
		if c != tTrue {
			allTrue = false
		}
		if c == tFalse || c == tOther {
			canZero = true
		}
		if c == tRaise || c == tOther {
			canRaise = true
		}
	}
	terms := strings.Join(cls, "")
	switch {
	case wo.raised:
		if !canRaise {
			t.Fatalf("where: query raises but no conjunct raises in the language (conjuncts %s)%s", terms, info())
		}
		rec.Label("where_both_raise")
		if sample && rec.WantSample("where_both_raise") {
			rec.Sample("where_both_raise", brief())
		}
	case wo.n == 1:
		if !allTrue {
			t.Fatalf("where: row selected but the language does not give true (conjuncts %s)%s", terms, info())
		}
		rec.Label("where_selected")
	case wo.n == 0:
		if allTrue {
			t.Fatalf("where: row not selected but the language gives true (conjuncts %s)%s", terms, info())
		}
		if !canZero {
			// only raising conjuncts: a silent empty result is accepted only when
			// another conjunct could have excluded the row; there is none
			t.Fatalf("where: language raises, query silently selects nothing (conjuncts %s)%s", terms, info())
		}
		rec.Label("where_not_selected")
		rec.LabelIf(canRaise, "where_not_selected_while_a_conjunct_raises")
	default:
		t.Fatalf("where: %d rows from a one row table%s", wo.n, info())
	}
}

// ratOf gives the exact value of a finite number.
func ratOf(v core.Value) (*big.Rat, bool) {
	if d, ok := v.(core.SuDnum); ok {
		if d.IsInf() {
			return nil, false
		}
		return gen.RatOf(d.Dnum), true
	}
	if v.Type() != types.Number {
		return nil, false
	}
	n, ok := v.IfInt()
	if !ok {
		return nil, false
	}
	return new(big.Rat).SetInt64(int64(n)), true
}

// exact16: r is a decimal with at most 16 significant digits.
func exact16(r *big.Rat) bool {
	den := new(big.Int).Set(r.Denom())
	two, five, zero := big.NewInt(2), big.NewInt(5), new(big.Int)
	m := new(big.Int)
	n2, n5 := 0, 0
	for m.Mod(den, two).Cmp(zero) == 0 {
		den.Quo(den, two)
		n2++
	}
	for m.Mod(den, five).Cmp(zero) == 0 {
		den.Quo(den, five)
		n5++
	}
	if den.Cmp(big.NewInt(1)) != 0 {
		return false
	}
	// digits of the numerator over 10^max(n2,n5)
	k := max(n2, n5)
	num := new(big.Int).Set(r.Num())
	for i := n2; i < k; i++ {
		num.Mul(num, two)
	}
	for i := n5; i < k; i++ {
		num.Mul(num, five)
	}
	str := strings.TrimRight(strings.TrimLeft(num.String(), "-"), "0")
	return len(str) <= 16
}

// divisorChainInexact: the expression has a * / chain with >= 2 divisors that
// are not constants, all operands are finite non-zero numbers on this row, and
// the quotient by the first divisor alone is not a 16 digit decimal (so
// dividing in turn rounds twice where a / (b * c) rounds once).
func divisorChainInexact(w *walkT, e *node) bool {
	found := false
	e.walk(func(n *node) {
		if found || n.op != "chain*" {
			return
		}
		var divs []*node
		num := new(big.Rat).SetInt64(1)
		ok := true
		for i, k := range n.kids {
			v, vok := w.compiled(k)
			if !vok {
				ok = false
				break
			}
			r, rok := ratOf(v)
			if !rok || r.Sign() == 0 {
				ok = false
				break
			}
			if i > 0 && n.signs[i-1] == '/' {
				if k.hasCol() {
					divs = append(divs, k)
				}
				if len(divs) == 1 && k.hasCol() {
					num.Quo(num, r)
				}
			} else {
				num.Mul(num, r)
			}
		}
		if ok && len(divs) >= 2 && !exact16(num) {
			found = true
		}
	})
	return found
}

//-------------------------------------------------------------------
// request shapes: the where / extend sits above operators whose Transform
// rewrites the expression (rename: renameExpr, extend: replaceExpr, project,
// union). The expression is written over the new column names; the language
// function keeps the original names and gets the same row values.

type request struct {
	shape   string
	names   map[string]string // column -> name used by the expression
	mid     map[string]string // nested rename: column -> intermediate name
	qsrc    string
	project bool
	// two-sided ranges (InRange) on a renamed column: packed bounds per column
	bounds map[string][]string
}

var shapeNames = []string{"plain", "rename", "rename_rename", "extend_alias", "project", "union_of_renames"}

func newRequest(t *rapid.T, rec *ev.Rec, e *node, src string) *request {
	rq := &request{names: map[string]string{}, mid: map[string]string{}, bounds: map[string][]string{}}
	rq.shape = shapeNames[gen.Weighted(t, "shape", []int{40, 22, 8, 12, 7, 11})]
	used := e.usedCols()
	if rq.shape != "plain" && !(rq.shape == "project" && gen.Chance(t, "projectPlain", 40)) {
		// mostly every column of the expression gets a new name, else a random subset
		all := gen.Chance(t, "renameAllUsed", 70)
		for _, c := range cols {
			isUsed := false
			for _, u := range used {
				isUsed = isUsed || u == c
			}
			if (all && isUsed) || (!all && gen.Chance(t, "renameCol", 50)) {
				rq.names[c] = "r" + c
				rq.mid[c] = "p" + c
			}
		}
		if len(rq.names) == 0 {
			c := cols[0]
			if len(used) > 0 {
				c = used[0]
			}
			rq.names[c], rq.mid[c] = "r"+c, "p"+c
		}
	}
	if len(rq.names) == 0 && rq.shape != "project" {
		rq.shape = "plain"
	}
	rq.project = rq.shape == "project"
	rec.Label("request_" + rq.shape)
	rq.qsrc = e.renamedString(rq.names)
	if rq.shape != "plain" {
		rec.Label("where_and_extend_above_expression_rewriting_operator")
		rq.findRanges(src)
		rec.LabelIf(len(rq.bounds) > 0, "InRange_on_renamed_column")
	}
	return rq
}

// findRanges records the InRange nodes (as the folder builds them) whose
// column the request renames.
func (rq *request) findRanges(src string) {
	defer func() { recover() }()
	p := qry.NewQueryParser(src, nil, nil)
	p.EqToIs = true
	var visit func(e ast.Node) ast.Node
	visit = func(e ast.Node) ast.Node {
		if r, ok := e.(*ast.InRange); ok {
			if id, ok := r.E.(*ast.Ident); ok {
				if _, renamed := rq.names[id.Name]; renamed {
					po, ok1 := constPacked(r.Org)
					pe, ok2 := constPacked(r.End)
					if ok1 && ok2 {
						rq.bounds[id.Name] = append(rq.bounds[id.Name], po, pe)
					}
				}
			}
		}
		e.Children(visit)
		return e
	}
	visit(p.Expression())
}

func (rq *request) boundHit(row []*val) bool {
	for i, c := range cols {
		for _, b := range rq.bounds[c] {
			if row[i].packed == b {
				return true
			}
		}
	}
	return false
}

func (rq *request) renameClause(from, to map[string]string) string {
	var parts []string
	for _, c := range cols {
		if n, ok := to[c]; ok {
			f := c
			if from != nil {
				f = from[c]
			}
			parts = append(parts, f+" to "+n)
		}
	}
	if len(parts) == 0 {
		return ""
	}
	return " rename " + strings.Join(parts, ", ")
}

func (rq *request) source(tb string) string {
	switch rq.shape {
	case "rename":
		return tb + rq.renameClause(nil, rq.names)
	case "rename_rename":
		return tb + rq.renameClause(nil, rq.mid) + rq.renameClause(rq.mid, rq.names)
	case "extend_alias":
		var parts []string
		for _, c := range cols {
			if n, ok := rq.names[c]; ok {
				parts = append(parts, n+" = "+c)
			}
		}
		return tb + " extend " + strings.Join(parts, ", ")
	case "project":
		list := []string{"k"}
		for _, c := range cols {
			if n, ok := rq.names[c]; ok {
				list = append(list, n)
			} else {
				list = append(list, c)
			}
		}
		return tb + rq.renameClause(nil, rq.names) + " project " + strings.Join(list, ", ")
	case "union_of_renames":
		other := tables[0]
		if tb == other {
			other = tables[1]
		}
		return "((" + tb + rq.renameClause(nil, rq.names) + ") union (" + other + rq.renameClause(nil, rq.names) + "))"
	}
	return tb
}

func (rq *request) texts(tb string) (whereQ, extendQ string) {
	s := rq.source(tb)
	return s + " where " + rq.qsrc, s + " extend x = " + rq.qsrc
}
