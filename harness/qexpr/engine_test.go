package qexpr

// engine_test.go: the real query engine on a HeapStor database (one stored
// row per valuation), the language side (compiled functions called by the
// interpreter), the raw/value path observation, and the small tree walk that
// finds the operand pairs reached by comparisons (for the documented
// exception and for known findings).

import (
	"fmt"
	"math/big"
	"runtime"
	"strings"
	"time"

	_ "github.com/apmckinlay/gsuneido/builtin"
	"github.com/apmckinlay/gsuneido/compile"
	"github.com/apmckinlay/gsuneido/compile/ast"
	tok "github.com/apmckinlay/gsuneido/compile/tokens"
	"github.com/apmckinlay/gsuneido/core"
	"github.com/apmckinlay/gsuneido/core/types"
	"github.com/apmckinlay/gsuneido/db19"
	"github.com/apmckinlay/gsuneido/db19/stor"
	_ "github.com/apmckinlay/gsuneido/dbms" // sets db19.MakeSuTran and query.MakeSuTran
	qry "github.com/apmckinlay/gsuneido/dbms/query"
	"verifharness/internal/gen"
)

//-------------------------------------------------------------------
// outcomes

type outcome struct {
	raised  bool
	msg     string
	runtime bool   // the panic was a Go runtime.Error
	n       int    // rows returned (where form)
	x       string // packed value of the extend column
	xs      []string
	strat   string
}

func (o outcome) String() string {
	if o.raised {
		rt := ""
		if o.runtime {
			rt = " (runtime.Error)"
		}
		return "raise: " + o.msg + rt
	}
	return fmt.Sprintf("rows=%d x=%s", o.n, showPacked(o.x))
}

func showPacked(p string) string {
	defer func() { recover() }()
	return fmt.Sprintf("%v [%x]", core.Unpack(p), p)
}

func isRapidPanic(e any) bool {
	t := fmt.Sprintf("%T", e)
	return strings.HasPrefix(t, "rapid.") || strings.HasPrefix(t, "*rapid.")
}

func catch(f func()) (o outcome) {
	defer func() {
		if e := recover(); e != nil {
			if isRapidPanic(e) {
				panic(e)
			}
			_, isrt := e.(runtime.Error)
			o = outcome{raised: true, msg: fmt.Sprint(e), runtime: isrt}
		}
	}()
	f()
	return outcome{}
}

//-------------------------------------------------------------------
// database

// Two tables with the same columns: t0 has only its key, t1 also has indexes
// on the expression columns so the where can select through an index
// (ranges/points on packed keys, index filter) before the row filter.
var tables = []string{"t0", "t1"}

type dbT struct {
	db   *db19.Database
	th   *core.Thread
	k    int
	uses int
}

var theDb *dbT

func newDb() *dbT {
	st := stor.HeapStor(8192)
	db := db19.CreateDb(st)
	db19.StartConcur(db, 50*time.Millisecond)
	qry.DoAdmin(db, "create t0 (k, a, b, c) key(k)", nil)
	qry.DoAdmin(db, "create t1 (k, a, b, c) key(k) index(a) index(b, c)", nil)
	return &dbT{db: db, th: &core.Thread{}}
}

// getDb recycles the database now and then (the heap store only grows).
func getDb() *dbT {
	if theDb != nil && theDb.uses > 30000 {
		theDb.db.Close()
		theDb = nil
	}
	if theDb == nil {
		theDb = newDb()
	}
	theDb.uses++
	return theDb
}

// put makes the valuation the only row of both tables (one transaction
// deletes the previous valuation and stores the new one).
func (d *dbT) put(row []*val) {
	d.k++
	var rb core.RecordBuilder
	rb.Add(core.IntVal(d.k))
	for _, x := range row {
		rb.AddRaw(x.packed)
	}
	rec := rb.Build()
	ut := d.db.NewUpdateTran()
	for _, tb := range tables {
		if d.k > 1 {
			if n := qry.DoAction(d.th, ut, "delete "+tb); n != 1 {
				panic(fmt.Sprintf("qexpr: delete %s removed %d rows", tb, n))
			}
		}
		ut.Output(d.th, tb, rec)
	}
	ut.Commit()
}

// query runs text through ParseQuery/Setup (Transform, optimize, SetApproach)
// and reads it with Get. xcol != "" reads that column of the (single) row.
func (d *dbT) query(text string, xcol string) outcome {
	var o outcome
	r := catch(func() {
		tran := d.db.NewReadTran()
		defer tran.Complete()
		q := qry.ParseQuery(text, tran, nil)
		q, _, _ = qry.Setup(q, qry.ReadMode, tran)
		o.strat = qry.String(q)
		hdr := q.Header()
		for {
			row := q.Get(d.th, core.Next)
			if row == nil {
				break
			}
			o.n++
			if xcol != "" {
				o.x = row.GetRawVal(hdr, xcol, d.th, nil)
				o.xs = append(o.xs, o.x)
			}
			if o.n > 3 {
				panic("qexpr: more rows than stored")
			}
		}
	})
	if r.raised {
		d.th = &core.Thread{} // the panic may have left frames / stack entries behind
		r.strat = o.strat
		return r
	}
	return o
}

//-------------------------------------------------------------------
// language side

type langFn struct {
	fn  core.Value
	err string // compile error
}

var langTh = &core.Thread{}

func compileFn(params, body string) langFn {
	var lf langFn
	o := catch(func() {
		lf.fn = compile.Constant("function (" + params + ") { return " + body + "\n}")
	})
	if o.raised {
		lf.err = o.msg
	}
	return lf
}

// lres is the result of a language evaluation.
type lres struct {
	v      core.Value
	raised bool
	msg    string
}

func (r lres) String() string {
	if r.raised {
		return "raise: " + r.msg
	}
	return fmt.Sprintf("%v (%s)", r.v, r.v.Type())
}

func (lf langFn) call(args ...core.Value) lres {
	if lf.fn == nil {
		return lres{raised: true, msg: "compile: " + lf.err}
	}
	var v core.Value
	o := catch(func() {
		if len(args) < 5 {
			v = langTh.Call(lf.fn, args...)
		} else {
			v = langTh.PushCall(lf.fn, nil, &core.ArgSpec{Nargs: byte(len(args))}, args...)
		}
	})
	if o.raised {
		// a panic leaves the interpreter's value stack where it was: new thread
		langTh = &core.Thread{}
		return lres{raised: true, msg: o.msg}
	}
	if v == nil {
		return lres{raised: true, msg: "no return value"}
	}
	return lres{v: v}
}

func rowArgs(row []*val) []core.Value {
	args := make([]core.Value, len(row))
	for i, x := range row {
		args[i] = x.v
	}
	return args
}

//-------------------------------------------------------------------
// raw / value path observation (ast.VerifEvalRaw hook)

type rawInfo struct {
	ok       bool // parsed
	whole    bool // the whole where expression is evaluated on packed values
	rawNodes int  // operator nodes evaluated raw (a raw node's operators all count)
	valNodes int  // operator nodes evaluated on values
	inRange  int  // InRange nodes produced by the folder
	in       int  // In nodes (written or produced by the folder)
	rawKinds map[string]int
}

var physical = []string{"k", "a", "b", "c"}

// observeRaw parses the expression the way `t where e` does (query parser,
// = means is, wrapped in a conjunction as NewWhere does) and asks CanEvalRaw
// with the table's physical fields, then reads the flags it left.
func observeRaw(src string) (ri rawInfo) {
	ri.rawKinds = map[string]int{}
	defer func() {
		if e := recover(); e != nil {
			ri.ok = false
		}
	}()
	p := qry.NewQueryParser(src, nil, nil)
	p.EqToIs = true
	expr := p.Expression()
	if n, ok := expr.(*ast.Nary); !ok || n.Tok != tok.And {
		expr = &ast.Nary{Tok: tok.And, Exprs: []ast.Expr{expr}}
	}
	ri.whole = expr.CanEvalRaw(physical)
	ri.ok = true
	top := expr.(*ast.Nary)
	for _, e := range top.Exprs {
		countRaw(e, ri.whole, &ri)
	}
	return ri
}

func countRaw(e ast.Expr, parentRaw bool, ri *rawInfo) {
	raw := parentRaw
	if f, has := ast.VerifEvalRaw(e); has {
		raw = raw || f
	}
	name := ""
	switch n := e.(type) {
	case *ast.Constant, *ast.Ident:
		return
	case *ast.Unary:
		if n.Tok == tok.LParen {
			countRaw(n.E, raw, ri)
			return
		}
		name = "Unary" + n.Tok.String()
	case *ast.Binary:
		name = n.Tok.String()
	case *ast.Nary:
		name = n.Tok.String()
	case *ast.InRange:
		ri.inRange++
		name = "InRange"
	case *ast.In:
		ri.in++
		name = "In"
	case *ast.Trinary:
		name = "Trinary"
	case *ast.Call:
		name = "Call"
	default:
		name = fmt.Sprintf("%T", e)
	}
	if raw {
		ri.rawNodes++
		ri.rawKinds[name]++
	} else {
		ri.valNodes++
	}
	e.Children(func(c ast.Node) ast.Node {
		if ce, ok := c.(ast.Expr); ok {
			if call, isCall := e.(*ast.Call); isCall && ce == call.Fn {
				return c
			}
			countRaw(ce, raw, ri)
		}
		return c
	})
}

//-------------------------------------------------------------------
// reached comparisons

// The walk decides which comparisons (and a few other operators named in
// known findings) an evaluation reaches, and with which operand values.
// Operand values are those of the compiled language: every subtree is
// compiled as its own function(a,b,c) (so the folder has done to it exactly
// what it does inside the whole expression: reassociated constants, x * 0,
// absorbing constants of and/or ...) and called on the row. The walk itself
// only follows the language's control flow (and / or / ?: short circuit);
// after a raise it keeps walking the remaining operands (flags only), since
// folding and the conjunct-wise evaluation of a where may reach them.

// exprFns holds the compiled subtrees of one expression.
type exprFns struct {
	alts   map[*node]langFn // subtraction written as addition of the negation
	fns    map[*node]langFn
	folded map[*node]bool // the folder reduces the subtree to a constant
}

func newExprFns() *exprFns {
	return &exprFns{fns: map[*node]langFn{}, folded: map[*node]bool{}, alts: map[*node]langFn{}}
}

func (x *exprFns) fn(n *node) langFn {
	f, ok := x.fns[n]
	if !ok {
		src := n.String()
		f = compileFn("a,b,c", src)
		x.fns[n] = f
		func() {
			defer func() { recover() }()
			_, isConst := qry.NewQueryParser(src, nil, nil).Expression().(*ast.Constant)
			x.folded[n] = isConst
		}()
	}
	return f
}

func (x *exprFns) isFolded(n *node) bool {
	x.fn(n)
	return x.folded[n]
}

type walkT struct {
	fns        *exprFns
	args       []core.Value
	row        map[string]*val
	documented bool // "" ordered against a boolean or number
	lossy      bool // F7: integer with > 16 digits compared with a close decimal
	subAsAdd   bool // known finding subtraction-as-add-negation
	divFirst   bool // known finding const-numerator-division
	negPrefix  bool // known finding negative-number-packed-prefix-order
	bitShort   bool // known finding bitop-short-circuit
}

func newWalk(fns *exprFns, row []*val) *walkT {
	w := &walkT{fns: fns, args: rowArgs(row), row: map[string]*val{}}
	for i, c := range cols {
		w.row[c] = row[i]
	}
	return w
}

// merge ors the flags of another walk into w.
func (w *walkT) merge(o *walkT) {
	w.documented = w.documented || o.documented
	w.lossy = w.lossy || o.lossy
	w.subAsAdd = w.subAsAdd || o.subAsAdd
	w.divFirst = w.divFirst || o.divFirst
	w.negPrefix = w.negPrefix || o.negPrefix
	w.bitShort = w.bitShort || o.bitShort
}

// subAsAddDiffers: the language itself gives another result (value, integer
// vs decimal representation, or raise) for n when every `x - y` in it is
// written `x + (-y)`, which is what the query evaluator computes.
func (w *walkT) subAsAddDiffers(n *node) bool {
	if !n.hasSubtraction() {
		return false
	}
	alt, ok := w.fns.alts[n]
	if !ok {
		alt = compileFn("a,b,c", n.altString())
		w.fns.alts[n] = alt
	}
	r1 := w.fns.fn(n).call(w.args...)
	r2 := alt.call(w.args...)
	if r1.raised || r2.raised {
		return r1.raised != r2.raised
	}
	return !sameValue(r1.v, r2.v)
}

// compiled: the value of the subtree as compiled code gives it.
func (w *walkT) compiled(n *node) (core.Value, bool) {
	r := w.fns.fn(n).call(w.args...)
	if r.raised {
		return nil, false
	}
	return r.v, true
}

func isEmptyStr(v core.Value) bool {
	if v.Type() != types.String && v.Type() != types.Except {
		return false
	}
	s, ok := v.ToStr()
	return ok && s == ""
}

// documentedPair is exactly the predicate of packedCmp / strictCompare in
// compile/ast/expr.go (the StrictCompareDb class): one operand is "" and the
// other one orders before strings (boolean or number).
func documentedPair(x, y core.Value) bool {
	return (isEmptyStr(x) && core.Order(y) < core.OrdStr) ||
		(isEmptyStr(y) && core.Order(x) < core.OrdStr)
}

func sigDigitsInt(n int64) int {
	s := strings.TrimLeft(fmt.Sprint(n), "-")
	s = strings.TrimRight(s, "0")
	return len(s)
}

// lossyPair: F7 - an integer representation with more than 16 significant
// digits against a finite decimal closer than one unit of the integer's 16th digit.
func lossyPair(x, y core.Value) bool {
	xi, xok := x.IfInt()
	_, xd := x.(core.SuDnum)
	yi, yok := y.IfInt()
	_, yd := y.(core.SuDnum)
	if xd && yok && !yd {
		x, y, xi, xok, xd, yd = y, x, yi, true, false, true
	}
	if !(xok && !xd && yd) {
		return false
	}
	d := y.(core.SuDnum).Dnum
	if d.IsInf() || sigDigitsInt(int64(xi)) <= 16 {
		return false
	}
	nd := len(strings.TrimLeft(fmt.Sprint(xi), "-"))
	unit := gen.Pow10Rat(nd - 16)
	diff := new(big.Rat).Sub(new(big.Rat).SetInt64(int64(xi)), gen.RatOf(d))
	return diff.Abs(diff).Cmp(unit) < 0
}

// negPrefixPair: two negative numbers of which one packed form is a proper
// prefix of the other (known finding negative-number-packed-prefix-order).
func negPrefixPair(x, y core.Value) bool {
	if x.Type() != types.Number || y.Type() != types.Number {
		return false
	}
	px, py := core.Pack(x.(core.Packable)), core.Pack(y.(core.Packable))
	if len(px) < 3 || len(py) < 3 || px[0] != core.PackMinus || py[0] != core.PackMinus || len(px) == len(py) {
		return false
	}
	return strings.HasPrefix(px, py) || strings.HasPrefix(py, px)
}

func (w *walkT) pair(op string, x, y core.Value) {
	if isOrdOp(op) && documentedPair(x, y) {
		w.documented = true
	}
	if isOrdOp(op) && negPrefixPair(x, y) {
		w.negPrefix = true
	}
	if lossyPair(x, y) {
		w.lossy = true
	}
}

func isBool(v core.Value) bool { return v == core.True || v == core.False }

func isDnum(v core.Value) bool {
	_, ok := v.(core.SuDnum)
	return ok
}

var opFns = map[string]langFn{}

// opFn compiles a one-operator function of x0..xn (used for "what would the
// query evaluator's variant of this operator give on these operand values").
func opFn(template string, n int) langFn {
	f, ok := opFns[template]
	if !ok {
		ps := make([]string, n)
		for i := range ps {
			ps[i] = fmt.Sprintf("x%d", i)
		}
		f = compileFn(strings.Join(ps, ","), template)
		if f.fn == nil {
			panic("qexpr: template does not compile: " + template + ": " + f.err)
		}
		opFns[template] = f
	}
	return f
}

func callTemplate(template string, vals ...core.Value) (core.Value, bool) {
	r := opFn(template, len(vals)).call(vals...)
	if r.raised {
		return nil, false
	}
	return r.v, true
}

// divisorFirst: the folder turns this * / chain into a Unary(Div) node or an
// Nary whose first operand is one (asked of the real parser/folder).
var divFirstCache = map[string]bool{}

func divisorFirst(n *node) bool {
	src := n.String()
	r, ok := divFirstCache[src]
	if !ok {
		if len(divFirstCache) > 5000 {
			divFirstCache = map[string]bool{}
		}
		func() {
			defer func() { recover() }()
			e := qry.NewQueryParser(src, nil, nil).Expression()
			isDiv := func(e ast.Expr) bool {
				u, ok := e.(*ast.Unary)
				return ok && u.Tok == tok.Div
			}
			if nary, ok := e.(*ast.Nary); ok && nary.Tok == tok.Mul {
				r = isDiv(nary.Exprs[0])
			} else {
				r = isDiv(e)
			}
		}()
		divFirstCache[src] = r
	}
	return r
}

var allOnes = core.Int64Val(0xffffffff)

// eval walks n and returns its value (ok = false: raises).
func (w *walkT) eval(n *node) (core.Value, bool) {
	switch n.op {
	case "const":
		return n.c.cv, true
	case "col":
		return w.row[n.col].v, true
	}
	if w.fns.isFolded(n) {
		return w.compiled(n) // a constant: nothing below it is evaluated at run time
	}
	switch n.op {
	case "and", "or":
		stop := core.False
		if n.op == "or" {
			stop = core.True
		}
		var kids []*node
		if n.op == "and" {
			kids = n.andTerms()
		} else {
			kids = n.orAlts()
		}
		raised := false
		for _, k := range kids {
			v, ok := w.eval(k)
			if !ok || !isBool(v) {
				raised = true
				continue
			}
			if v == stop && !raised {
				return stop, true
			}
		}
		if raised {
			return nil, false
		}
		return core.SuBool(stop != core.True), true
	case "?:":
		c, ok := w.eval(n.kids[0])
		if !ok || !isBool(c) {
			w.eval(n.kids[1]) // flags only
			w.eval(n.kids[2])
			return nil, false
		}
		if c == core.True {
			return w.eval(n.kids[1])
		}
		return w.eval(n.kids[2])
	}
	kids := n.kids
	if n.op == "&" || n.op == "|" {
		kids, _ = n.flat() // the folder flattens nested chains of the same operator
	}
	vals := make([]core.Value, len(kids))
	failed := false
	for i, k := range kids {
		v, ok := w.eval(k)
		if !ok {
			failed = true // keep walking the other operands (flags only)
		}
		vals[i] = v
	}
	v, ok := w.compiled(n)
	switch n.op {
	case "&", "|":
		// the query evaluator stops as soon as the running result is the absorbing value
		absorbing := core.Value(core.Zero)
		if n.op == "|" {
			absorbing = allOnes
		}
		running, rok := vals[0], vals[0] != nil
		for i := 1; rok && i < len(vals); i++ {
			if running.Type() == types.Number && running.Equal(absorbing) {
				// (the query returns the decimal constant allones for | )
				if !ok || !sameValue(v, absorbing) || (n.op == "|" && !isDnum(v)) {
					w.bitShort = true
				}
				break
			}
			if vals[i] == nil {
				break
			}
			running, rok = callTemplate("x0 "+n.op+" x1", running, vals[i])
		}
	}
	if failed {
		return v, ok
	}
	switch n.op {
	case "in", "notin":
		for _, y := range vals[1:] {
			w.pair("is", vals[0], y)
		}
	case "chain*":
		if strings.Contains(n.signs, "/") && divisorFirst(n) {
			w.divFirst = true
		}
	case "call":
		if n.name == "Max" || n.name == "Min" || n.name == "Cmp" {
			w.pair("is", vals[0], vals[1]) // compare without the "" exception, but F7 applies
		}
	}
	if isCmpOp(n.op) {
		w.pair(n.op, vals[0], vals[1])
	}
	return v, ok
}

//-------------------------------------------------------------------
// predicates of known findings that are decided on the expression

// constPoolMerge: known finding compiler-constant-pool-lossy-merge - the
// compiled language function replaces a constant by another one of its
// constant table that it Equals although they are different values. Decided on
// the folded expression (folding produces new constants).
func constPoolMerge(src string) (found bool) {
	defer func() {
		if e := recover(); e != nil {
			found = false
		}
	}()
	var consts []core.Value
	var visit func(e ast.Node) ast.Node
	visit = func(e ast.Node) ast.Node {
		if c, ok := e.(*ast.Constant); ok {
			if pv, ok := c.Val.(core.Packable); ok {
				p := core.Pack(pv)
				for _, o := range consts {
					if core.Pack(o.(core.Packable)) != p && o.Type() == c.Val.Type() &&
						(c.Val.Equal(o) || o.Equal(c.Val)) {
						found = true
					}
				}
				consts = append(consts, c.Val)
			}
			return e
		}
		e.Children(visit)
		return e
	}
	visit(qry.NewQueryParser(src, nil, nil).Expression())
	return found
}

func unparen(e ast.Expr) ast.Expr {
	for {
		u, ok := e.(*ast.Unary)
		if !ok || u.Tok != tok.LParen {
			return e
		}
		e = u.E
	}
}

// orWithEmptyRange: known finding or-with-empty-range (dbms/query/where2.go
// orSpan), decided on the expression as the query parser/folder builds it: an
// `or` conjunct one of whose alternatives is `col < ""` or a conjunction /
// InRange whose lower and upper bound on one column leave nothing.
func orWithEmptyRange(src string) (r bool) {
	defer func() {
		if e := recover(); e != nil {
			r = false
		}
	}()
	p := qry.NewQueryParser(src, nil, nil)
	p.EqToIs = true
	expr := unparen(p.Expression())
	terms := []ast.Expr{expr}
	if n, ok := expr.(*ast.Nary); ok && n.Tok == tok.And {
		terms = n.Exprs
	}
	for _, tm := range terms {
		or, ok := unparen(tm).(*ast.Nary)
		if !ok || or.Tok != tok.Or {
			continue
		}
		for _, alt := range or.Exprs {
			if emptyRangeAlt(unparen(alt)) {
				return true
			}
		}
	}
	return false
}

type boundT struct {
	lo, hi       string
	hasLo, hasHi bool
	loInc, hiInc bool
}

func (b *boundT) lower(p string, inc bool) {
	if !b.hasLo || p > b.lo || (p == b.lo && !inc) {
		b.lo, b.loInc, b.hasLo = p, inc, true
	}
}

func (b *boundT) upper(p string, inc bool) {
	if !b.hasHi || p < b.hi || (p == b.hi && !inc) {
		b.hi, b.hiInc, b.hasHi = p, inc, true
	}
}

func (b *boundT) empty() bool {
	return b.hasLo && b.hasHi && (b.lo > b.hi || (b.lo == b.hi && !(b.loInc && b.hiInc)))
}

func constPacked(e ast.Expr) (string, bool) {
	c, ok := e.(*ast.Constant)
	if !ok {
		return "", false
	}
	pv, ok := c.Val.(core.Packable)
	if !ok {
		return "", false
	}
	return core.Pack(pv), true
}

func emptyRangeAlt(alt ast.Expr) bool {
	terms := []ast.Expr{alt}
	if n, ok := alt.(*ast.Nary); ok && n.Tok == tok.And {
		terms = n.Exprs
	}
	bounds := map[string]*boundT{}
	get := func(col string) *boundT {
		b := bounds[col]
		if b == nil {
			b = &boundT{}
			bounds[col] = b
		}
		return b
	}
	for _, tm := range terms {
		switch t := unparen(tm).(type) {
		case *ast.Binary: // the folder has put the constant on the right
			id, ok := t.Lhs.(*ast.Ident)
			if !ok {
				continue
			}
			p, ok := constPacked(t.Rhs)
			if !ok {
				continue
			}
			switch t.Tok {
			case tok.Lt:
				if p == "" {
					return true
				}
				get(id.Name).upper(p, false)
			case tok.Lte:
				get(id.Name).upper(p, true)
			case tok.Gt:
				get(id.Name).lower(p, false)
			case tok.Gte:
				get(id.Name).lower(p, true)
			case tok.Is:
				get(id.Name).lower(p, true)
				get(id.Name).upper(p, true)
			}
		case *ast.InRange:
			id, ok := t.E.(*ast.Ident)
			if !ok {
				continue
			}
			po, ok1 := constPacked(t.Org)
			pe, ok2 := constPacked(t.End)
			if !ok1 || !ok2 {
				continue
			}
			if t.EndTok == tok.Lt && pe == "" {
				return true
			}
			get(id.Name).lower(po, t.OrgTok == tok.Gte)
			get(id.Name).upper(pe, t.EndTok == tok.Lte)
		}
	}
	for _, b := range bounds {
		if b.empty() {
			return true
		}
	}
	return false
}

// emptyPointDup: known finding composite-index-empty-point-duplicates,
// decided on the folded expression: a point/in restriction of b by constants
// and a restriction of c made of the "" point plus something else.
func emptyPointDup(src string) (r bool) {
	defer func() {
		if e := recover(); e != nil {
			r = false
		}
	}()
	p := qry.NewQueryParser(src, nil, nil)
	p.EqToIs = true
	expr := unparen(p.Expression())
	terms := []ast.Expr{expr}
	if n, ok := expr.(*ast.Nary); ok && n.Tok == tok.And {
		terms = n.Exprs
	}
	isCol := func(e ast.Expr, col string) bool {
		id, ok := e.(*ast.Ident)
		return ok && id.Name == col
	}
	isEmptyConst := func(e ast.Expr) bool {
		p, ok := constPacked(e)
		return ok && p == ""
	}
	// withEmpty: a selection on c that includes the "" point; more: it includes something else too
	var onC func(e ast.Expr) (isOnC, withEmpty, more bool)
	onC = func(e ast.Expr) (bool, bool, bool) {
		switch t := unparen(e).(type) {
		case *ast.Call:
			if fn, ok := t.Fn.(*ast.Ident); ok && len(t.Args) == 1 && isCol(t.Args[0].E, "c") {
				return true, fn.Name == "String?", true
			}
		case *ast.In:
			if !isCol(t.E, "c") {
				return false, false, false
			}
			empty, other := false, false
			for _, x := range t.Exprs {
				if _, ok := constPacked(x); !ok {
					return false, false, false
				}
				if isEmptyConst(x) {
					empty = true
				} else {
					other = true
				}
			}
			return true, empty, other
		case *ast.Binary:
			if !isCol(t.Lhs, "c") {
				return false, false, false
			}
			if _, ok := constPacked(t.Rhs); !ok {
				return false, false, false
			}
			switch t.Tok {
			case tok.Is:
				return true, isEmptyConst(t.Rhs), !isEmptyConst(t.Rhs)
			case tok.Lt:
				return true, !isEmptyConst(t.Rhs), true
			case tok.Lte:
				return true, true, !isEmptyConst(t.Rhs)
			case tok.Isnt:
				return true, !isEmptyConst(t.Rhs), true
			case tok.Gt, tok.Gte:
				return true, t.Tok == tok.Gte && isEmptyConst(t.Rhs), true
			}
		case *ast.InRange:
			if isCol(t.E, "c") {
				return true, t.OrgTok == tok.Gte && isEmptyConst(t.Org), true
			}
		case *ast.Nary:
			if t.Tok != tok.Or {
				return false, false, false
			}
			empty, n := false, 0
			for _, alt := range t.Exprs {
				ok, e, _ := onC(alt)
				if !ok {
					return false, false, false
				}
				empty = empty || e
				n++
			}
			return true, empty, n > 1
		}
		return false, false, false
	}
	bPoint, cEmptyPlus := false, false
	for _, tm := range terms {
		switch t := unparen(tm).(type) {
		case *ast.Binary:
			if _, ok := constPacked(t.Rhs); ok && t.Tok == tok.Is && isCol(t.Lhs, "b") {
				bPoint = true
			}
		case *ast.In:
			if isCol(t.E, "b") {
				all := true
				for _, x := range t.Exprs {
					if _, ok := constPacked(x); !ok {
						all = false
					}
				}
				bPoint = bPoint || all
			}
		}
		if ok, empty, more := onC(tm); ok && empty && more {
			cEmptyPlus = true
		}
	}
	return bPoint && cEmptyPlus
}

// absorbingConstKept: known finding transform-refold-drops-operands - the
// folded expression still has an and / or with its absorbing constant as an
// operand (the folder kept it because an operand before it is not discardable).
func absorbingConstKept(src string) (found bool) {
	defer func() {
		if e := recover(); e != nil {
			found = false
		}
	}()
	p := qry.NewQueryParser(src, nil, nil)
	p.EqToIs = true
	var visit func(e ast.Node) ast.Node
	visit = func(e ast.Node) ast.Node {
		if n, ok := e.(*ast.Nary); ok && (n.Tok == tok.And || n.Tok == tok.Or) {
			zero := core.Value(core.False)
			if n.Tok == tok.Or {
				zero = core.True
			}
			for _, x := range n.Exprs {
				if c, ok := x.(*ast.Constant); ok && c.Val == zero {
					found = true
				}
			}
		}
		e.Children(visit)
		return e
	}
	visit(p.Expression())
	return found
}

// multiConstAndOr: known finding transform-refold-combines-constants - the
// folded expression contains an and / or with two or more constant operands.
func multiConstAndOr(src string) (found bool) {
	defer func() {
		if e := recover(); e != nil {
			found = false
		}
	}()
	p := qry.NewQueryParser(src, nil, nil)
	p.EqToIs = true
	var visit func(e ast.Node) ast.Node
	visit = func(e ast.Node) ast.Node {
		if n, ok := e.(*ast.Nary); ok && (n.Tok == tok.And || n.Tok == tok.Or) {
			k := 0
			for _, x := range n.Exprs {
				if _, ok := x.(*ast.Constant); ok {
					k++
				}
			}
			if k > 1 {
				found = true
			}
		}
		e.Children(visit)
		return e
	}
	visit(p.Expression())
	return found
}
