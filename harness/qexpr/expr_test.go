package qexpr

// expr_test.go: values with source literals, expression trees over the
// columns a, b, c, their rendering to source text (the same text is given to
// the query parser and to the language compiler), and the generator.

import (
	"fmt"
	"strings"

	"github.com/apmckinlay/gsuneido/compile"
	"github.com/apmckinlay/gsuneido/core"
	"github.com/apmckinlay/gsuneido/core/types"
	"github.com/apmckinlay/gsuneido/util/dnum"
	"pgregory.net/rapid"
	"verifharness/internal/gen"
)

type kind int

const (
	kNum kind = iota
	kStr
	kDate
	kBool
	kAny
)

func (k kind) String() string {
	return [...]string{"num", "str", "date", "bool", "any"}[k]
}

// val is a scalar with its stored encoding. v is always Unpack(packed): what
// the query engine sees as "the row's value" and what the language gets.
type val struct {
	v      core.Value
	packed string
	lit    string     // source literal ("" = has none, only usable as a row value)
	cv     core.Value // the value the parser gives for lit (may be another number representation than v)
	k      kind
}

func mkVal(v core.Value, lit string) *val {
	p := core.Pack(v.(core.Packable))
	u := core.Unpack(p)
	return &val{v: u, packed: p, lit: lit, k: kindOf(u)}
}

func kindOf(v core.Value) kind {
	switch v.Type() {
	case types.Number:
		return kNum
	case types.String, types.Except:
		return kStr
	case types.Date:
		return kDate
	case types.Boolean:
		return kBool
	}
	return kAny
}

func (x *val) String() string {
	return fmt.Sprintf("%s %v", x.k, x.v)
}

// litVal parses a literal with the real constant parser so the model knows
// exactly the value both sides will see for that text.
func litVal(lit string) (x *val, ok bool) {
	defer func() {
		if e := recover(); e != nil {
			ok = false
		}
	}()
	v := compile.Constant(lit)
	if _, isp := v.(core.Packable); !isp {
		return nil, false
	}
	x = mkVal(v, lit)
	x.cv = v
	return x, true
}

var numLits = []string{"0", "1", "-1", "2", "3", "5", "7", "10", "100", "-5",
	"1.5", ".5", "-2.25", "2.0", "1e2", "1e-3", "123.456", "0.3", ".1",
	"1e16", "10000000000000001", "9999999999999999", "99999999999999999",
	"-10000000000000001", "1.000000000000001", "1e20", "-1e20", "1e-20",
	"9223372036854775807", "-9223372036854775808", "9223372036854775806",
	"32767", "32768", "-32768", "-32769", "65536", "2147483647", "2147483648",
	"4294967295", "4294967296", "0xff", "1e126", "1e-126"}

var strLits = []string{`""`, `"a"`, `"b"`, `"c"`, `"ab"`, `"abc"`, `'A'`, `"aB"`, `" "`,
	`"0"`, `"5"`, `"10"`, `'a%'`, `"x_y"`, `"true"`, `"hello world"`, `'abc '`, `"b."`, `''`}

var dateLits = []string{"#20240229", "#20240301", "#20240228", "#19000101", "#29991231",
	"#17000101", "#20240229.1200", "#20240229.120000", "#20240229.120000001",
	"#20240229.235959999", "#20240229.120000001002", "#20240229.000000000001"}

var boolLits = []string{"true", "false"}

var patLits = []string{`"a"`, `"^a"`, `"b$"`, `"a.c"`, `"[ab]+"`, `"(?i)A"`, `""`, `"^$"`, `"\\d"`, `"x*"`}

var litCache = map[string]*val{}

func init() {
	for _, list := range [][]string{numLits, strLits, dateLits, boolLits, patLits} {
		for _, l := range list {
			x, ok := litVal(l)
			if !ok {
				panic("qexpr: literal does not parse: " + l)
			}
			litCache[l] = x
		}
	}
}

func lit(l string) *val {
	if x, ok := litCache[l]; ok {
		return x
	}
	x, ok := litVal(l)
	if !ok {
		panic("qexpr: generated literal does not parse: " + l)
	}
	return x
}

//-------------------------------------------------------------------
// trees

// node ops:
//
//	const col
//	cmp ops: is isnt < <= > >=      match ops: =~ !~
//	and or (n-ary, rendered flat)   not
//	chain+ (kids joined by signs[i] in "+-"), chain* (signs in "*/"), $ (n-ary)
//	neg pos bitnot  % << >> & | ^
//	in notin (kids[0] in kids[1:])   ?: (cond, t, f)
//	rangeto (s[i..j], kids may be nil for open ends) rangelen (s[i::n]) sub (s[i])
//	call (name, args)  pipe (arg |> name)
type node struct {
	op    string
	c     *val
	col   string
	name  string
	signs string
	kids  []*node
}

// renderNames makes String write columns under other names (the request
// renames them below the where/extend).
var renderNames map[string]string

func (n *node) renamedString(m map[string]string) string {
	renderNames = m
	defer func() { renderNames = nil }()
	return n.String()
}

func (n *node) usedCols() []string {
	seen := map[string]bool{}
	n.walk(func(x *node) {
		if x.op == "col" {
			seen[x.col] = true
		}
	})
	var r []string
	for _, c := range cols {
		if seen[c] {
			r = append(r, c)
		}
	}
	return r
}

// renderSubAsAddNeg makes String write every `x - y` as `x + (-y)`: what the
// query evaluator computes (known finding subtraction-as-add-negation).
var renderSubAsAddNeg = false

// altString renders n with every subtraction written as addition of the negation.
func (n *node) altString() string {
	renderSubAsAddNeg = true
	defer func() { renderSubAsAddNeg = false }()
	return n.String()
}

func (n *node) hasSubtraction() bool {
	has := false
	n.walk(func(x *node) {
		if x.op == "chain+" && strings.Contains(x.signs, "-") {
			has = true
		}
	})
	return has
}

func (n *node) atom() bool { return n.op == "const" || n.op == "col" }

func isCmpOp(op string) bool {
	switch op {
	case "is", "isnt", "<", "<=", ">", ">=":
		return true
	}
	return false
}

func isOrdOp(op string) bool {
	switch op {
	case "<", "<=", ">", ">=":
		return true
	}
	return false
}

// bareCmp: a comparison between atoms, rendered without parentheses inside
// and/or so that the folder sees *Binary terms (InRange / In rewrites).
func (n *node) bareCmp() bool {
	return isCmpOp(n.op) && n.kids[0].atom() && n.kids[1].atom()
}

func (n *node) sub() string {
	if n == nil {
		return ""
	}
	if n.atom() {
		return n.String()
	}
	return "(" + n.String() + ")"
}

func (n *node) String() string {
	switch n.op {
	case "const":
		return n.c.lit
	case "col":
		if m, ok := renderNames[n.col]; ok {
			return m
		}
		return n.col
	case "and", "or":
		parts := make([]string, len(n.kids))
		for i, k := range n.kids {
			if k.bareCmp() {
				parts[i] = k.String()
			} else {
				parts[i] = k.sub()
			}
		}
		return strings.Join(parts, " "+n.op+" ")
	case "not":
		return "not " + n.kids[0].sub()
	case "neg":
		return "-" + n.kids[0].subNeg()
	case "pos":
		return "+" + n.kids[0].subNeg()
	case "bitnot":
		return "~" + n.kids[0].subNeg()
	case "chain+", "chain*":
		var sb strings.Builder
		sb.WriteString(n.kids[0].sub())
		for i, k := range n.kids[1:] {
			if renderSubAsAddNeg && n.signs[i] == '-' {
				sb.WriteString(" + (-" + k.subNeg() + ")")
			} else {
				sb.WriteString(" " + string(n.signs[i]) + " " + k.sub())
			}
		}
		return sb.String()
	case "$":
		parts := make([]string, len(n.kids))
		for i, k := range n.kids {
			parts[i] = k.sub()
		}
		return strings.Join(parts, " $ ")
	case "in", "notin":
		parts := make([]string, len(n.kids)-1)
		for i, k := range n.kids[1:] {
			parts[i] = k.sub()
		}
		op := " in ("
		if n.op == "notin" {
			op = " not in ("
		}
		return n.kids[0].sub() + op + strings.Join(parts, ", ") + ")"
	case "?:":
		return n.kids[0].sub() + " ? " + n.kids[1].sub() + " : " + n.kids[2].sub()
	case "rangeto":
		return n.kids[0].sub() + "[" + n.kids[1].sub() + " .. " + n.kids[2].sub() + "]"
	case "rangelen":
		return n.kids[0].sub() + "[" + n.kids[1].sub() + " :: " + n.kids[2].sub() + "]"
	case "sub":
		return n.kids[0].sub() + "[" + n.kids[1].sub() + "]"
	case "call":
		parts := make([]string, len(n.kids))
		for i, k := range n.kids {
			parts[i] = k.sub()
		}
		return n.name + "(" + strings.Join(parts, ", ") + ")"
	case "pipe":
		return n.kids[0].sub() + " |> " + n.name
	}
	// binary
	return n.kids[0].sub() + " " + n.op + " " + n.kids[1].sub()
}

// subNeg: operand of a prefix operator; a negative literal is parenthesised
// so that "--5" (decrement) is never produced.
func (n *node) subNeg() string {
	if n.op == "const" && strings.HasPrefix(n.c.lit, "-") {
		return "(" + n.c.lit + ")"
	}
	return n.sub()
}

func (n *node) walk(f func(*node)) {
	if n == nil {
		return
	}
	f(n)
	for _, k := range n.kids {
		k.walk(f)
	}
}

func (n *node) nops() int {
	c := 0
	n.walk(func(x *node) {
		if !x.atom() {
			c++
			if x.op == "and" || x.op == "or" || x.op == "$" || x.op == "chain+" || x.op == "chain*" {
				c += len(x.kids) - 2 // n-ary: one operator between each pair
			}
		}
	})
	return c
}

func (n *node) hasCol() bool {
	has := false
	n.walk(func(x *node) {
		if x.op == "col" {
			has = true
		}
	})
	return has
}

func (n *node) opName() string {
	switch n.op {
	case "call", "pipe":
		return n.op + "_" + n.name
	}
	return n.op
}

// andTerms returns the top-level conjuncts (through nested ands, as the
// folder flattens them).
func (n *node) andTerms() []*node {
	if n.op != "and" {
		return []*node{n}
	}
	var r []*node
	for _, k := range n.kids {
		r = append(r, k.andTerms()...)
	}
	return r
}

// flat returns the operands (and for chain+ the signs between them) of a
// & | or + - chain with nested chains of the same operator spliced in, as the
// folder does for parenthesised operands (a subtracted chain is not spliced).
func (n *node) flat() (kids []*node, signs string) {
	for i, k := range n.kids {
		sign := byte('+')
		if i > 0 && n.op == "chain+" {
			sign = n.signs[i-1]
		}
		if k.op == n.op && sign == '+' {
			ks, ss := k.flat()
			if len(kids) > 0 {
				signs += "+"
			}
			kids = append(kids, ks...)
			signs += ss
			continue
		}
		if len(kids) > 0 {
			signs += string(sign)
		}
		kids = append(kids, k)
	}
	return kids, signs
}

// orAlts returns the alternatives of an or (through nested ors).
func (n *node) orAlts() []*node {
	if n.op != "or" {
		return []*node{n}
	}
	var r []*node
	for _, k := range n.kids {
		r = append(r, k.orAlts()...)
	}
	return r
}

//-------------------------------------------------------------------
// generator

var cols = []string{"a", "b", "c"}

type gctx struct {
	t       *rapid.T
	colKind map[string]kind
	pool    []*val // constants used in the expression
	size    int
}

func (g *gctx) u(n int) int         { return gen.Uniform(g.t, "u", n) }
func (g *gctx) chance(p int) bool   { return gen.Chance(g.t, "p", p) }
func (g *gctx) w(ws ...int) int     { return gen.Weighted(g.t, "w", ws) }
func pick[T any](g *gctx, xs []T) T { return gen.Pick(g.t, "pick", xs) }

func (g *gctx) constOf(k kind) *node {
	if k == kAny {
		k = kind(g.w(5, 4, 2, 1))
	}
	var l string
	switch k {
	case kNum:
		switch g.w(5, 6, 2, 2, 1) {
		case 0:
			l = fmt.Sprint(g.u(14) - 3)
		case 1:
			l = pick(g, numLits)
		case 2:
			l = fmt.Sprint(rapid.IntRange(-1000, 1000).Draw(g.t, "i"))
		case 3:
			l = fmt.Sprintf("%d.%02d", rapid.IntRange(-99, 99).Draw(g.t, "ip"), g.u(100))
		default:
			l = fmt.Sprint(gen.Int64().Draw(g.t, "i64"))
		}
	case kStr:
		if g.chance(75) {
			l = pick(g, strLits)
		} else {
			q := pick(g, []string{`"`, `'`})
			l = q + rapid.StringMatching(`[a-c]{0,4}`).Draw(g.t, "s") + q
		}
	case kDate:
		l = pick(g, dateLits)
	default:
		l = pick(g, boolLits)
	}
	x := lit(l)
	g.pool = append(g.pool, x)
	return &node{op: "const", c: x}
}

// colOf picks a column, preferring one whose rows are mostly of kind k.
func (g *gctx) colOf(k kind) *node {
	if k != kAny && g.chance(80) {
		var m []string
		for _, c := range cols {
			if g.colKind[c] == k {
				m = append(m, c)
			}
		}
		if len(m) > 0 {
			return &node{op: "col", col: pick(g, m)}
		}
	}
	return &node{op: "col", col: pick(g, cols)}
}

func (g *gctx) atomOf(k kind) *node {
	if g.chance(65) {
		return g.colOf(k)
	}
	return g.constOf(k)
}

// expr generates an expression that is meant to produce kind k (kAny: any).
// With a small probability an operand of another kind is used (both sides
// then usually raise, or compare across types).
func (g *gctx) expr(k kind, d int) *node {
	g.size++
	if k != kAny && g.chance(6) {
		k = kAny
	}
	if k == kAny {
		k = kind(g.w(4, 3, 1, 4))
	}
	if d <= 0 || g.size > 14 {
		if k == kBool && g.chance(85) {
			return g.cmp(0)
		}
		return g.atomOf(k)
	}
	switch k {
	case kNum:
		return g.num(d)
	case kStr:
		return g.str(d)
	case kDate:
		return g.date(d)
	}
	return g.boolean(d)
}

func (g *gctx) cmpOp() string {
	return pick(g, []string{"is", "isnt", "<", "<=", ">", ">="})
}

// cmp: comparison; operand shapes are weighted towards `col op const`
// (raw evaluation, where spans) but cover every combination.
func (g *gctx) cmp(d int) *node {
	k := kind(g.w(6, 4, 2, 1))
	col := g.colOf(k)
	ck := g.colKind[col.col]
	if ck == kAny || g.chance(20) {
		ck = kAny
	}
	var l, r *node
	switch g.w(40, 10, 15, 15, 10, 10) {
	case 0:
		l, r = col, g.constOf(ck)
	case 1:
		l, r = g.constOf(ck), col
	case 2:
		l, r = col, g.colOf(ck)
	case 3:
		l, r = g.expr(k, d-1), g.constOf(k)
	case 4:
		l, r = g.expr(k, d-1), g.expr(k, d-1)
	default:
		l, r = col, g.expr(k, d-1)
	}
	return &node{op: g.cmpOp(), kids: []*node{l, r}}
}

// rangeTerms: lower and upper bound on one column (InRange rewrite when both
// constants have the same type order and the lower bound comes first).
func (g *gctx) rangeTerms() []*node {
	k := kind(g.w(6, 4, 2))
	col := g.colOf(k)
	ck := g.colKind[col.col]
	if ck == kAny || ck == kBool {
		ck = k
	}
	c1, c2 := g.constOf(ck), g.constOf(ck)
	if g.chance(12) {
		c2 = g.constOf(kAny)
	}
	lo := &node{op: pick(g, []string{">", ">="}), kids: []*node{col, c1}}
	hi := &node{op: pick(g, []string{"<", "<="}), kids: []*node{col, c2}}
	if g.chance(20) { // constant on the left: the folder reverses it
		lo = &node{op: map[string]string{">": "<", ">=": "<="}[lo.op], kids: []*node{c1, col}}
	}
	if g.chance(20) {
		hi = &node{op: map[string]string{"<": ">", "<=": ">="}[hi.op], kids: []*node{c2, col}}
	}
	if g.chance(12) {
		return []*node{hi, lo}
	}
	return []*node{lo, hi}
}

// orIs: col is c1 or col is c2 ... (In rewrite)
func (g *gctx) orIs() []*node {
	k := kind(g.w(6, 4, 2, 1))
	col := g.colOf(k)
	ck := g.colKind[col.col]
	n := 2 + g.u(2)
	var r []*node
	for i := 0; i < n; i++ {
		c := g.constOf(ck)
		if g.chance(10) {
			c = g.constOf(kAny)
		}
		r = append(r, &node{op: "is", kids: []*node{col, c}})
	}
	return r
}

func (g *gctx) boolean(d int) *node {
	switch g.w(26, 9, 6, 9, 16, 6, 4, 8, 4, 3, 2) {
	case 0:
		return g.cmp(d)
	case 1: // range, possibly inside a longer conjunction
		kids := g.rangeTerms()
		if g.chance(35) {
			kids = append([]*node{g.expr(kBool, d-1)}, kids...)
		}
		if g.chance(35) {
			kids = append(kids, g.expr(kBool, d-1))
		}
		return &node{op: "and", kids: kids}
	case 2:
		kids := g.orIs()
		if g.chance(30) {
			kids = append(kids, g.expr(kBool, d-1))
		}
		return &node{op: "or", kids: kids}
	case 3:
		k := kind(g.w(6, 4, 2, 1))
		var e *node
		if g.chance(75) {
			e = g.colOf(k)
		} else {
			e = g.expr(k, d-1)
		}
		kids := []*node{e}
		n := 1 + g.u(4)
		for i := 0; i < n; i++ {
			switch {
			case g.chance(12):
				kids = append(kids, g.colOf(k))
			case g.chance(12):
				kids = append(kids, g.constOf(kAny))
			default:
				kids = append(kids, g.constOf(k))
			}
		}
		op := "in"
		if g.chance(25) {
			op = "notin"
		}
		return &node{op: op, kids: kids}
	case 4:
		n := 2 + g.u(2)
		kids := make([]*node, n)
		for i := range kids {
			kids[i] = g.expr(kBool, d-1)
		}
		return &node{op: pick(g, []string{"and", "or"}), kids: kids}
	case 5:
		return &node{op: "not", kids: []*node{g.expr(kBool, d-1)}}
	case 6:
		var pat *node
		if g.chance(85) {
			x := lit(pick(g, patLits))
			g.pool = append(g.pool, x)
			pat = &node{op: "const", c: x}
		} else {
			pat = g.atomOf(kStr)
		}
		return &node{op: pick(g, []string{"=~", "!~"}), kids: []*node{g.expr(kStr, d-1), pat}}
	case 7:
		name := pick(g, []string{"Number?", "String?", "Date?", "Boolean?"})
		var arg *node
		if g.chance(70) {
			arg = g.colOf(kAny)
		} else {
			arg = g.expr(kAny, d-1)
		}
		return &node{op: "call", name: name, kids: []*node{arg}}
	case 8:
		return &node{op: "?:", kids: []*node{g.expr(kBool, d-1), g.expr(kBool, d-1), g.expr(kBool, d-1)}}
	case 9:
		return g.atomOf(kBool)
	default:
		name := pick(g, []string{"Number?", "String?", "Date?"})
		return &node{op: "pipe", name: name, kids: []*node{g.expr(kAny, d-1)}}
	}
}

func (g *gctx) num(d int) *node {
	switch g.w(10, 20, 14, 7, 5, 11, 5, 6, 9) {
	case 0:
		return g.atomOf(kNum)
	case 1:
		n := 2 + g.u(3)
		kids := make([]*node, n)
		signs := ""
		for i := range kids {
			kids[i] = g.expr(kNum, d-1)
			if i > 0 {
				signs += pick(g, []string{"+", "+", "-"})
			}
		}
		return &node{op: "chain+", signs: signs, kids: kids}
	case 2:
		n := 2 + g.u(3)
		kids := make([]*node, n)
		signs := ""
		for i := range kids {
			kids[i] = g.expr(kNum, d-1)
			if i > 0 {
				signs += pick(g, []string{"*", "*", "/"})
			}
		}
		return &node{op: "chain*", signs: signs, kids: kids}
	case 3:
		return &node{op: pick(g, []string{"neg", "neg", "pos"}), kids: []*node{g.expr(kNum, d-1)}}
	case 4:
		return &node{op: "%", kids: []*node{g.expr(kNum, d-1), g.expr(kNum, d-1)}}
	case 5:
		op := pick(g, []string{"&", "|", "^", "bitnot"})
		if op == "bitnot" {
			return &node{op: op, kids: []*node{g.expr(kNum, d-1)}}
		}
		return &node{op: op, kids: []*node{g.expr(kNum, d-1), g.expr(kNum, d-1)}}
	case 6:
		sh := g.atomOf(kNum)
		if g.chance(60) {
			x := lit(fmt.Sprint(g.u(40)))
			g.pool = append(g.pool, x)
			sh = &node{op: "const", c: x}
		}
		return &node{op: pick(g, []string{"<<", ">>"}), kids: []*node{g.expr(kNum, d-1), sh}}
	case 7:
		return &node{op: "?:", kids: []*node{g.expr(kBool, d-1), g.expr(kNum, d-1), g.expr(kNum, d-1)}}
	default:
		name := pick(g, []string{"Max", "Min", "Cmp"})
		k := kNum
		if name == "Cmp" {
			k = kAny
		}
		return &node{op: "call", name: name, kids: []*node{g.expr(k, d-1), g.expr(k, d-1)}}
	}
}

func (g *gctx) idx() *node {
	if g.chance(70) {
		x := lit(fmt.Sprint(g.u(8) - 3))
		g.pool = append(g.pool, x)
		return &node{op: "const", c: x}
	}
	return g.expr(kNum, 0)
}

func (g *gctx) str(d int) *node {
	switch g.w(10, 26, 10, 10, 4, 6, 5, 5) {
	case 0:
		return g.atomOf(kStr)
	case 1:
		n := 2 + g.u(2)
		kids := make([]*node, n)
		for i := range kids {
			if g.chance(25) {
				kids[i] = g.expr(kNum, d-1)
			} else {
				kids[i] = g.expr(kStr, d-1)
			}
		}
		return &node{op: "$", kids: kids}
	case 2:
		return &node{op: "rangeto", kids: []*node{g.expr(kStr, d-1), g.idx(), g.idx()}}
	case 3:
		return &node{op: "rangelen", kids: []*node{g.expr(kStr, d-1), g.idx(), g.idx()}}
	case 4:
		return &node{op: "sub", kids: []*node{g.expr(kStr, d-1), g.idx()}}
	case 5:
		return &node{op: "?:", kids: []*node{g.expr(kBool, d-1), g.expr(kStr, d-1), g.expr(kStr, d-1)}}
	case 6:
		return &node{op: "call", name: "Type", kids: []*node{g.expr(kAny, d-1)}}
	default:
		return &node{op: "call", name: pick(g, []string{"Max", "Min"}), kids: []*node{g.expr(kStr, d-1), g.expr(kStr, d-1)}}
	}
}

func (g *gctx) date(d int) *node {
	switch g.w(6, 2, 2) {
	case 0:
		return g.atomOf(kDate)
	case 1:
		return &node{op: "?:", kids: []*node{g.expr(kBool, d-1), g.expr(kDate, d-1), g.expr(kDate, d-1)}}
	default:
		return &node{op: "call", name: pick(g, []string{"Max", "Min"}), kids: []*node{g.expr(kDate, d-1), g.expr(kDate, d-1)}}
	}
}

//-------------------------------------------------------------------
// arithmetic sub-generator: * / + - chains over columns and small constants
// (several non-constant divisors, results compared exactly in the extend form)

var smallDecLits = []string{".1", ".2", ".3", ".5", ".25", ".75", "1.5", "2.5", "1.1", "3.3", ".7", "0.125", "1e2", "2.0"}

func (g *gctx) smallConst() *node {
	var l string
	switch g.w(6, 2, 3) {
	case 0:
		l = fmt.Sprint(1 + g.u(12))
	case 1:
		l = fmt.Sprint(-1 - g.u(12))
	default:
		l = pick(g, smallDecLits)
	}
	x := lit(l)
	g.pool = append(g.pool, x)
	return &node{op: "const", c: x}
}

func (g *gctx) arithAtom() *node {
	if g.chance(70) {
		return &node{op: "col", col: pick(g, cols)}
	}
	return g.smallConst()
}

// arithTerm: x * y / z / w ... with a column first (so the folder does not
// put a divisor first) and divisions at least as likely as multiplications.
func (g *gctx) arithTerm(d int) *node {
	n := 2 + g.w(2, 4, 3, 1)
	kids := make([]*node, n)
	signs := ""
	for i := range kids {
		switch {
		case i == 0 && g.chance(85):
			kids[i] = &node{op: "col", col: pick(g, cols)}
		case d > 0 && g.chance(15):
			kids[i] = g.arithSum(d - 1)
		default:
			kids[i] = g.arithAtom()
		}
		if i > 0 {
			signs += pick(g, []string{"/", "/", "/", "*", "*"})
		}
	}
	return &node{op: "chain*", signs: signs, kids: kids}
}

func (g *gctx) arithSum(d int) *node {
	n := 2 + g.u(2)
	kids := make([]*node, n)
	signs := ""
	for i := range kids {
		if g.chance(55) {
			kids[i] = g.arithTerm(d - 1)
		} else {
			kids[i] = g.arithAtom()
		}
		if i > 0 {
			signs += pick(g, []string{"+", "-"})
		}
	}
	return &node{op: "chain+", signs: signs, kids: kids}
}

// arith: an arithmetic expression, bare (extend compares the number exactly;
// the where form then sees a non-boolean) or compared with a constant / another term.
func (g *gctx) arith() *node {
	var e *node
	switch g.w(5, 3, 1) {
	case 0:
		e = g.arithTerm(1)
	case 1:
		e = g.arithSum(1)
	default:
		e = &node{op: pick(g, []string{"neg", "%"}), kids: []*node{g.arithTerm(1)}}
		if e.op == "%" {
			e.kids = append(e.kids, g.smallConst())
		}
	}
	switch g.w(5, 3, 2) {
	case 0:
		return e
	case 1:
		return &node{op: g.cmpOp(), kids: []*node{e, g.smallConst()}}
	default:
		return &node{op: g.cmpOp(), kids: []*node{e, g.arithTerm(0)}}
	}
}

// arithRowValue: small non-zero integers, short decimals, and the general classes.
func (g *gctx) arithRowValue(col string) *val {
	switch g.w(45, 10, 20, 3, 22) {
	case 0:
		return mkVal(core.IntVal(1+g.u(12)), "")
	case 1:
		return mkVal(core.IntVal(-1-g.u(12)), "")
	case 2:
		return lit(pick(g, smallDecLits))
	case 3:
		return lit("0")
	default:
		return g.rowValue(col)
	}
}

//-------------------------------------------------------------------
// row values

var extraStrs = []string{"", "a", "ab", "abc", "b", "A", "5", " ", "abd", "ab\x00", "\x00", "\xff", "aa"}

// neighbours of a constant: boundary values for comparisons and ranges.
func neighbours(g *gctx, x *val) *val {
	switch x.k {
	case kNum:
		if n, ok := x.v.IfInt(); ok {
			switch g.u(4) {
			case 0:
				if n < 1<<62 {
					return mkVal(core.IntVal(n+1), "")
				}
			case 1:
				if n > -(1 << 62) {
					return mkVal(core.IntVal(n-1), "")
				}
			case 2: // same value as a decimal (only exact up to 16 digits; packs the same)
				return mkVal(core.SuDnum{Dnum: dnum.FromInt(int64(n))}, "")
			default:
				return mkVal(core.OpAdd(core.IntVal(n), lit(".5").v), "")
			}
			return x
		}
		d := core.ToDnum(x.v)
		if d.IsInf() || d.IsZero() {
			return x
		}
		// adjacent representable decimals
		coef := d.Coef()
		if g.chance(50) {
			coef++
		} else {
			coef--
		}
		return mkVal(core.SuDnum{Dnum: dnum.New(int8(d.Sign()), coef, d.Exp())}, "")
	case kStr:
		s := core.ToStr(x.v)
		switch g.u(4) {
		case 0:
			return mkVal(core.SuStr(s+"a"), "")
		case 1:
			return mkVal(core.SuStr(s+"\x00"), "")
		case 2:
			if len(s) > 0 {
				return mkVal(core.SuStr(s[:len(s)-1]), "")
			}
		default:
			return mkVal(core.SuStr(strings.ToUpper(s)), "")
		}
		return x
	case kDate:
		if d, ok := x.v.(core.SuDate); ok && d.Year() > 1700 && d.Year() < 2999 {
			if g.chance(50) {
				return mkVal(d.Plus(0, 0, 0, 0, 0, 0, 1), "")
			}
			return mkVal(d.Plus(0, 0, 0, 0, 0, 0, -1), "")
		}
	case kBool:
		return mkVal(core.SuBool(x.v != core.True), "")
	}
	return x
}

func (g *gctx) freshOf(k kind) *val {
	if k == kAny {
		k = kind(g.w(5, 4, 2, 2))
	}
	switch k {
	case kNum:
		switch g.w(4, 4, 2, 2) {
		case 0:
			return mkVal(core.IntVal(g.u(14)-3), "")
		case 1:
			return lit(pick(g, numLits))
		case 2:
			return mkVal(gen.IntMV().Draw(g.t, "int").V, "")
		default:
			return mkVal(gen.DnumMV().Draw(g.t, "dnum").V, "")
		}
	case kStr:
		switch g.w(5, 4, 2) {
		case 0:
			return mkVal(core.SuStr(pick(g, extraStrs)), "")
		case 1:
			return lit(pick(g, strLits))
		default:
			return mkVal(gen.StrMV().Draw(g.t, "str").V, "")
		}
	case kDate:
		if g.chance(50) {
			return lit(pick(g, dateLits))
		}
		return mkVal(gen.DateMV().Draw(g.t, "date").V, "")
	}
	return lit(pick(g, boolLits))
}

var emptyVal = mkVal(core.EmptyStr, `""`)

// rowValue draws the value of one column: constants of the expression and
// their neighbours (boundaries), fresh values of the column's usual kind,
// "", and values of any other kind.
func (g *gctx) rowValue(col string) *val {
	k := g.colKind[col]
	var same []*val
	for _, x := range g.pool {
		if k == kAny || x.k == k {
			same = append(same, x)
		}
	}
	c := g.w(30, 18, 26, 7, 12, 7)
	if len(same) == 0 && c < 2 {
		c = 2
	}
	switch c {
	case 0:
		return pick(g, same)
	case 1:
		return neighbours(g, pick(g, same))
	case 2:
		return g.freshOf(k)
	case 3:
		return emptyVal
	case 4:
		return g.freshOf(kAny)
	default:
		if len(g.pool) > 0 {
			return pick(g, g.pool)
		}
		return g.freshOf(kAny)
	}
}
