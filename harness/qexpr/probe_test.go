package qexpr

import (
	"fmt"
	"testing"
)

func TestProbe(t *testing.T) {
	d := newDb()
	defer d.db.Close()
	row := []*val{lit("4"), lit("3"), lit(`"5"`)}
	d.put(row)
	for _, e := range []string{"3 / b", "1 / b", "6 / b / a", "a / b", "a * 3 / b", "12 / b * a", "2 * 6 / b"} {
		fmt.Println(e, "| where:", d.query("t0 where "+e+" > 0", ""), "| extend:", d.query("t0 extend x = "+e, "x"), "| lang:", compileFn("a,b,c", e).call(rowArgs(row)...))
	}
}
