package query

// c02_test.go: C02 (snapshot isolation) observed through the query layer:
// ordinary queries in read transactions held open across foreign commits,
// cursors (one CursorMode query object reused across transactions, SetTran
// before every Get as dbms.cursorLocal does), and queries inside update
// transactions (snapshot + own changes). Oracle: the naive evaluator applied to
// the model snapshot of the transaction the read is done with.

import (
	"fmt"
	"regexp"
	"strings"
	"testing"

	"github.com/apmckinlay/gsuneido/core"
	"github.com/apmckinlay/gsuneido/db19"
	qry "github.com/apmckinlay/gsuneido/dbms/query"
	"pgregory.net/rapid"
	"verifharness/internal/ev"
	"verifharness/internal/gen"
	"verifharness/internal/rt"
)

type snapT map[string][][]string

func (d *dbT) snapshot() snapT {
	s := snapT{}
	for _, tb := range d.tables {
		s[tb.name] = copyRows(tb.rows)
	}
	return s
}

// evalOn evaluates q on a snapshot of the model.
func (d *dbT) evalOn(s snapT, q *qnode) (*rel, error) {
	saved := d.snapshot()
	defer func() {
		for _, tb := range d.tables {
			tb.rows = saved[tb.name]
		}
	}()
	for _, tb := range d.tables {
		tb.rows = s[tb.name]
	}
	return d.eval(q)
}

// simpleStmt draws a statement whose effect does not depend on the engine's
// iteration order: insert of a record that violates nothing, delete by a
// stored value, update of a column outside every index by a stored value.
// It returns the text and the table contents afterwards (nil = no statement).
func (d *dbT) simpleStmt(t *rapid.T, prefer map[string]bool) (string, *tableT, [][]string) {
	var tabs []*tableT
	for _, tb := range d.tables {
		tabs = append(tabs, tb)
		if prefer[tb.name] {
			tabs = append(tabs, tb, tb)
		}
	}
	tb := pickOf(t, "stmt_table", tabs)
	whereOf := func() (string, func(row []string) bool) {
		c := pickOf(t, "stmt_wcol", tb.cols)
		j := tb.colIndex(c.name)
		var vals []string
		seen := map[string]bool{}
		for _, r := range tb.rows {
			if !seen[r[j]] {
				seen[r[j]] = true
				vals = append(vals, r[j])
			}
		}
		if len(vals) == 0 {
			return "", nil
		}
		v := pickOf(t, "stmt_wval", vals)
		return " where " + c.name + " is " + unpackStr(v), func(row []string) bool { return row[j] == v }
	}
	switch gen.Weighted(t, "stmt_kind", []int{2, 2, 5}) {
	case 0: // insert
		row := make([]string, len(tb.cols))
		var parts []string
		for j, c := range tb.cols {
			l := pickOf(t, "stmt_val", poolOf(c.name).lits())
			row[j] = l.packed
			if l.packed != "" {
				parts = append(parts, c.name+": "+l.src)
			}
		}
		after := append(copyRows(tb.rows), row)
		if violates(tb, after) != "" {
			return "", nil, nil
		}
		return "insert { " + strings.Join(parts, ", ") + " } into " + tb.name, tb, after
	case 1: // delete
		w, match := whereOf()
		if match == nil {
			return "", nil, nil
		}
		var after [][]string
		for _, r := range tb.rows {
			if !match(r) {
				after = append(after, r)
			}
		}
		return "delete " + tb.name + w, tb, after
	default: // update a column that is in no index
		var free []colT
		for _, c := range tb.cols {
			used := false
			for _, ix := range tb.allIndexes() {
				if contains(ix, c.name) {
					used = true
				}
			}
			if !used {
				free = append(free, c)
			}
		}
		w, match := whereOf()
		if match == nil || len(free) == 0 {
			return "", nil, nil
		}
		c := pickOf(t, "stmt_setcol", free)
		l := pickOf(t, "stmt_setval", poolOf(c.name).lits())
		after := copyRows(tb.rows)
		for _, r := range after {
			if match(r) {
				r[tb.colIndex(c.name)] = l.packed
			}
		}
		return "update " + tb.name + w + " set " + c.name + " = " + l.src, tb, after
	}
}

// c02Query draws a request with emphasis on operators that look up, cache or
// materialise: join / leftjoin / semijoin onto a table, summarize, union.
func c02Query(t *rapid.T, g *qgen) *topQ {
	if gen.Chance(t, "c02_plain", 30) {
		return g.genTop(3)
	}
	l := g.gen(rng(t, "c02_ldepth", 0, 1))
	var q *qnode
	shape := gen.Weighted(t, "c02_shape", []int{5, 3, 1, 2, 2, 8})
	if shape == 5 {
		if lj := lookupJoin(t, g); lj != nil {
			return lj
		}
		shape = 0
	}
	switch shape {
	case 0:
		q = g.join("join", l, g.leaf())
	case 1:
		q = g.join("leftjoin", l, g.leaf())
	case 2:
		q = g.join("semijoin", l, g.leaf())
	case 3:
		q = g.summarize(g.join("join", l, g.leaf()))
	default:
		q = g.compatible("union", l, 1)
	}
	switch gen.Uniform(t, "c02_wrap", 5) {
	case 0:
		q = g.where(q)
	case 1:
		q = g.project(q, false)
	case 2:
		q = g.extend(q)
	}
	tq := &topQ{q: q}
	if gen.Chance(t, "c02_sort", 15) {
		names := q.outNames()
		tq.sort = subsetOf(t, names, 1, min(2, len(names)), "sortcols")
		tq.reverse = gen.Chance(t, "reverse", 50)
	}
	return tq
}

// lookupJoin builds `L [where ..] join|leftjoin R [sort <index of L>]` where
// the common columns are exactly a key of R that is not a key of L: the shape
// that executes as a many-to-one lookup join (also in cursor mode, which has
// no temp indexes).
func lookupJoin(t *rapid.T, g *qgen) *topQ {
	type cand struct {
		l, r *tableT
		key  []string
	}
	var cands []cand
	for _, l := range g.db.tables {
		for _, r := range g.db.tables {
			if l == r {
				continue
			}
			for _, key := range r.keys {
				if len(key) == 0 || len(common(key, l.colNames())) != len(key) {
					continue
				}
				isKeyOfL := false
				for _, lk := range l.keys {
					if len(common(lk, key)) == len(lk) {
						isKeyOfL = true
					}
				}
				if !isKeyOfL {
					cands = append(cands, cand{l, r, key})
				}
			}
		}
	}
	if len(cands) == 0 {
		return nil
	}
	c := pickOf(t, "lj_cand", cands)
	var left *qnode = tableNode(c.l)
	// other common columns are removed from the left operand
	extra := without(common(c.l.colNames(), c.r.colNames()), c.key)
	if len(extra) > 0 {
		if len(extra) == len(c.l.cols)-len(c.key) && len(c.key) == len(c.l.cols) {
			return nil
		}
		q := &qnode{op: "remove", src: left, cols: extra}
		for _, oc := range left.out {
			if !contains(extra, oc.name) {
				q.out = append(q.out, oc)
			}
		}
		left = q
	}
	if gen.Chance(t, "lj_where", 30) {
		left = g.where(left)
	}
	op := "join"
	if gen.Chance(t, "lj_left", 35) {
		op = "leftjoin"
	}
	q := g.join(op, left, tableNode(c.r))
	if gen.Chance(t, "lj_wrap", 25) {
		q = g.where(q)
	}
	tq := &topQ{q: q}
	// sort by a prefix of an index of the left table that survived the remove
	if gen.Chance(t, "lj_sort", 50) {
		var prefixes [][]string
		for _, ix := range c.l.allIndexes() {
			if len(ix) > 0 && len(common(ix, extra)) == 0 {
				prefixes = append(prefixes, ix[:rng(t, "lj_sortn", 1, len(ix))])
			}
		}
		if len(prefixes) > 0 {
			tq.sort = pickOf(t, "lj_sortix", prefixes)
			tq.reverse = gen.Chance(t, "reverse", 30)
		}
	}
	return tq
}

type openRead struct {
	tran *db19.ReadTran
	snap snapT
	x    *execT
	n    int // number of commits seen since it started
}

// TestC02Query: snapshot isolation as seen by queries and cursors.
func TestC02Query(t *testing.T) {
	rec := ev.New("C02", "query layer (in addition to the txn package): rapid-generated database (as C22) and a request emphasising join/leftjoin/semijoin onto a table, summarize and union; history of 6-10 steps: foreign commits (insert / delete by stored value / update of an unindexed column, each DoAction in its own update transaction), read transactions opened and held across the commits (query set up once per transaction, re-read with Next/Prev and with a fresh Setup under the same transaction), ONE CursorMode query object reused across transactions (SetTran before every Get; new and older read transactions and update transactions), and update transactions with own statements (query sees snapshot + own changes). Oracle: naive evaluator on the model snapshot of the transaction used: full reads must equal it as multisets; a continuing cursor Get under another transaction must return a row of that transaction's result (see docs/query.md for why only that). Non-trivial: a read (full or cursor) under a transaction whose snapshot differs from the latest committed state or from the snapshot of the cursor's previous transaction, with a non-empty result; distinct = query + database + history.")
	rec.Assumptions = []string{
		"cursor continuation across transactions: only membership of the returned row in the result on the current transaction's snapshot is asserted (the position contract across changed data is not documented); Rewind + full read under one transaction is compared exactly (as multiset)",
		"foreign commits never happen while an update transaction of the history is open",
		"query classes listed as known findings under C22 are skipped (labelled)",
	}
	defer rec.Write()

	rt.Check(t, rec, "history", 1500, 20000, func(t *rapid.T) {
		d := genDb(t)
		g := &qgen{t: t, db: d}
		tq := c02Query(t, g)
		c := &caseT{d: d, tq: tq, text: tq.String(), ops: tq.q.ops(), borrowed: true}
		if c.knownCase(rec, "C22") {
			return
		}
		if _, err := d.eval(tq.q); err != nil {
			rec.Label("skipped_model: " + strings.SplitN(err.Error(), ":", 2)[0])
			return
		}
		d.build()
		defer d.release()
		var hist []string
		cols := func() []string { r, _ := d.eval(tq.q); return r.cols }()
		fail := func(format string, args ...any) {
			t.Fatalf("C02 (query layer): %s\nquery: %s\nhistory:\n    %s\ndatabase now:\n%s", fmt.Sprintf(format, args...),
				c.text, strings.Join(hist, "\n    "), d.describe())
		}
		skipped := false
		expect := func(s snapT) []string {
			r, err := d.evalOn(s, tq.q)
			if err != nil {
				skipped = true
				return nil
			}
			return canonRows(r.cols, r.rows)
		}
		crash := func(err *engineErr, strat string) bool {
			// true: case ends (class known under C22)
			if c.knownCrash(rec, "C22", err, strat) {
				return true
			}
			fail("engine panicked: %v\nstrategy: %s\n%s", err, strat, err.stack)
			return true
		}
		// the cursor: set up once in CursorMode
		var cursor *execT
		cursorSnapDiffers := false
		{
			x, err := setupTran(d, c.text, cols, planT{name: "setup-cursor", mode: qry.CursorMode, use: "none", frac: 1}, d.db.NewReadTran())
			if err == errImpossible {
				rec.Label("cursor_impossible")
			} else if err != nil {
				crash(err, "")
				return
			} else {
				cursor = x
			}
		}
		var cursorLast snapT
		var opens []*openRead
		commits := 0
		nt := false
		cursorTrans, cursorAfterCommit, lookupAfterCommit := 0, false, false
		prefer := tq.q.tables()
		secondChanged := false // a commit changed a table read by the query since the cursor's last use
		full := func(x *execT, tran qry.QueryTran, dir core.Dir) ([][]string, *engineErr) {
			var rows [][]string
			err := catch(func() {
				if tran != nil {
					x.q.SetTran(tran)
				}
				x.q.Rewind()
				for {
					if tran != nil {
						x.q.SetTran(tran) // cursorLocal.Get: SetTran before every Get
					}
					r := x.get(dir)
					if r == nil {
						break
					}
					rows = append(rows, r)
					if len(rows) > 4*maxModelRows {
						panic("engine returns too many rows")
					}
				}
			})
			return rows, err
		}
		nsteps := rng(t, "nsteps", 6, 10)
		for step := 0; step < nsteps && !skipped; step++ {
			kind := gen.Weighted(t, "step", []int{5, 2, 3, 7, 1})
			switch kind {
			case 0: // foreign commit
				text, tb, after := d.simpleStmt(t, prefer)
				if text == "" {
					continue
				}
				hist = append(hist, "commit: "+text)
				ut := d.db.NewUpdateTran()
				err := catch(func() { qry.DoAction(&core.Thread{}, ut, text); ut.Commit() })
				if err != nil {
					ut.Abort()
					fail("foreign statement failed: %v", err)
				}
				tb.rows = after
				commits++
				for _, o := range opens {
					o.n++
				}
				if prefer[tb.name] {
					secondChanged = true
				}
			case 1: // open a read transaction and read
				if len(opens) >= 3 {
					continue
				}
				o := &openRead{tran: d.db.NewReadTran(), snap: d.snapshot()}
				hist = append(hist, fmt.Sprintf("open read transaction R%d, query set up and read", len(opens)))
				x, err := setupTran(d, c.text, cols, planT{name: "setup-read", mode: qry.ReadMode, use: "none", frac: 1}, o.tran)
				if err != nil {
					crash(err, "")
					return
				}
				o.x = x
				opens = append(opens, o)
				got, err := full(x, nil, core.Next)
				if err != nil {
					crash(err, x.strat)
					return
				}
				if want := expect(o.snap); !skipped && !sameStrings(canonRows(cols, got), want) {
					fail("first read in a new read transaction differs from the committed state\nstrategy: %s\nengine:\n%s", x.strat, showRows(cols, got, 30))
				}
			case 2: // re-read in a held read transaction
				if len(opens) == 0 {
					continue
				}
				i := gen.Uniform(t, "reread", len(opens))
				o := opens[i]
				x := o.x
				how := "same query object"
				if gen.Chance(t, "fresh", 40) {
					var err *engineErr
					x, err = setupTran(d, c.text, cols, planT{name: "setup-read", mode: qry.ReadMode, use: "none", frac: 1}, o.tran)
					if err != nil {
						crash(err, "")
						return
					}
					how = "fresh Setup"
				}
				dir := core.Next
				if gen.Chance(t, "prev", 30) {
					dir = core.Prev
				}
				hist = append(hist, fmt.Sprintf("re-read in R%d (%s, %c), %d commits since it started", i, how, dir, o.n))
				got, err := full(x, nil, dir)
				if err != nil {
					crash(err, x.strat)
					return
				}
				want := expect(o.snap)
				if !skipped && !sameStrings(canonRows(cols, got), want) {
					r, _ := d.evalOn(o.snap, tq.q)
					fail("read in transaction R%d (started %d commits ago) differs from its start snapshot\nstrategy: %s\nengine:\n%s\nsnapshot model:\n%s",
						i, o.n, x.strat, showRows(cols, got, 30), showRows(r.cols, r.rows, 30))
				}
				if o.n > 0 && len(want) > 0 {
					nt = true
					rec.Label("reread_after_foreign_commit")
				}
			case 3: // cursor under some transaction
				if cursor == nil {
					continue
				}
				var tran qry.QueryTran
				var snap snapT
				var ut *db19.UpdateTran
				name := ""
				switch k := gen.Weighted(t, "cursor_tran", []int{5, 3, 1}); {
				case k == 1 && len(opens) > 0:
					i := gen.Uniform(t, "cursor_open", len(opens))
					tran, snap, name = opens[i].tran, opens[i].snap, fmt.Sprintf("held R%d (%d commits old)", i, opens[i].n)
				case k == 2:
					ut = d.db.NewUpdateTran()
					tran, snap, name = ut, d.snapshot(), "a new update transaction"
				default:
					tran, snap, name = d.db.NewReadTran(), d.snapshot(), "a new read transaction"
				}
				want := expect(snap)
				if skipped {
					break
				}
				cursorTrans++
				differs := cursorLast != nil && !sameStrings(expect(cursorLast), want)
				if cursorTrans >= 2 && commits > 0 {
					cursorAfterCommit = true
				}
				if strings.Contains(cursor.strat, "n:1") && cursorTrans >= 2 && secondChanged && ut == nil {
					lookupAfterCommit = true
				}
				secondChanged = false
				if gen.Chance(t, "cursor_full", 55) {
					hist = append(hist, "cursor: Rewind + read all under "+name)
					got, err := full(cursor, tran, core.Next)
					if ut != nil {
						ut.Abort()
					}
					if err != nil {
						crash(err, cursor.strat)
						return
					}
					if !sameStrings(canonRows(cols, got), want) {
						r, _ := d.evalOn(snap, tq.q)
						fail("cursor read under %s differs from that transaction's snapshot\nstrategy: %s\nengine:\n%s\nsnapshot model:\n%s",
							name, cursor.strat, showRows(cols, got, 30), showRows(r.cols, r.rows, 30))
					}
				} else {
					n := rng(t, "cursor_gets", 1, 4)
					hist = append(hist, fmt.Sprintf("cursor: %d x Next under %s", n, name))
					for i := 0; i < n; i++ {
						var row []string
						err := catch(func() {
							cursor.q.SetTran(tran)
							row = cursor.get(core.Next)
						})
						if err != nil {
							if ut != nil {
								ut.Abort()
							}
							crash(err, cursor.strat)
							return
						}
						if row == nil {
							cursor.q.Rewind() // queryLocal.Get rewinds at eof
							break
						}
						if !statelessStrategy(cursor.strat) {
							// operators that keep rows between Gets (the outer row
							// of times / 1:n joins, the look-ahead of summarize-seq,
							// project-seq and union-merge, summarize-map's table)
							// legitimately return data read under the cursor's
							// previous transaction; only full reads are judged
							rec.Label("cursor_continuation_not_judged:stateful_operator")
							continue
						}
						k := canonRows(cols, [][]string{row})[0]
						found := false
						for _, w := range want {
							if w == k {
								found = true
							}
						}
						if !found {
							if ut != nil {
								ut.Abort()
							}
							r, _ := d.evalOn(snap, tq.q)
							fail("cursor Next under %s returned a row that is not in the query's result on that transaction's snapshot\nstrategy: %s\nrow: %s\nsnapshot model:\n%s",
								name, cursor.strat, showRow(cols, row), showRows(r.cols, r.rows, 30))
						}
					}
					if ut != nil {
						ut.Abort()
					}
				}
				if differs && len(want) > 0 {
					nt = true
					cursorSnapDiffers = true
				}
				cursorLast = snap
			default: // update transaction: snapshot + own changes
				ut := d.db.NewUpdateTran()
				saved := d.snapshot()
				var own []string
				ok := true
				for i := 0; i < rng(t, "nown", 1, 2); i++ {
					text, tb, after := d.simpleStmt(t, prefer)
					if text == "" {
						continue
					}
					if err := catch(func() { qry.DoAction(&core.Thread{}, ut, text) }); err != nil {
						ut.Abort()
						hist = append(hist, "update transaction: "+text)
						fail("own statement failed: %v", err)
					}
					tb.rows = after
					own = append(own, text)
				}
				hist = append(hist, "update transaction: "+strings.Join(own, "; ")+"; query; abort")
				want := expect(d.snapshot())
				if !skipped {
					x, err := setupTran(d, c.text, cols, planT{name: "setup-update", mode: qry.UpdateMode, use: "none", frac: 1}, ut)
					if err != nil {
						ut.Abort()
						crash(err, "")
						return
					}
					got, err := full(x, nil, core.Next)
					if err != nil {
						ut.Abort()
						crash(err, x.strat)
						return
					}
					if !sameStrings(canonRows(cols, got), want) {
						ok = false
						r, _ := d.eval(tq.q)
						hist = append(hist, "strategy: "+x.strat)
						ut.Abort()
						fail("query inside the update transaction differs from snapshot + own changes\nengine:\n%s\nmodel:\n%s", showRows(cols, got, 30), showRows(r.cols, r.rows, 30))
					}
					if len(own) > 0 && len(want) > 0 {
						rec.Label("update_tran_sees_own_changes")
					}
				}
				_ = ok
				ut.Abort()
				for _, tb := range d.tables {
					tb.rows = saved[tb.name]
				}
			}
		}
		if skipped {
			rec.Label("skipped_model_error_in_history")
			return
		}
		rec.Case(nt, c.text+"\n"+strings.Join(hist, "\n")+"\n"+d.describe())
		c.model = &rel{}
		rec.LabelIf(cursor != nil, "cursor_possible")
		rec.LabelIf(cursorAfterCommit, "cursor_reused_across>=2_transactions_with_commit_between")
		rec.LabelIf(cursorSnapDiffers, "cursor_result_changed_between_its_transactions")
		rec.LabelIf(lookupAfterCommit, "n:1_lookup_join_cursor_read_after_commit_to_its_tables")
		rec.LabelIf(commits > 0, "history_with_foreign_commit")
		if cursor != nil {
			for _, f := range stratFeatures(cursor.strat) {
				rec.Label("cursor_strat_" + f)
			}
		}
		for _, o := range opens {
			for _, f := range stratFeatures(o.x.strat) {
				rec.Label("read_strat_" + f)
			}
		}
		if nt && rec.WantSample("history") {
			rec.Sample("history", map[string]any{"query": c.text, "history": hist})
		}
	})
}

// statelessStrategy: every Get of the strategy reads only through the
// transaction set by the preceding SetTran (tables in cursor mode re-seek from
// the current key, where/extend/rename/project-copy work row by row, 1:1 and
// n:1 joins fetch the outer row and look the inner one up on each Get).
var statefulRe = regexp.MustCompile(`summarize|project-seq|project-map|project-hash|union|intersect|minus|times|1:n|n:n|tempindex`)

func statelessStrategy(strat string) bool {
	return !statefulRe.MatchString(strat)
}
