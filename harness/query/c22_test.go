package query

import (
	"fmt"
	"os"
	"time"
	"sort"
	"strings"
	"testing"

	"github.com/apmckinlay/gsuneido/core"
	"pgregory.net/rapid"
	"verifharness/internal/ev"
	"verifharness/internal/gen"
	"verifharness/internal/kf"
	"verifharness/internal/rt"
)

const maxDepth = 4

// c22Plans: the ways real callers set a query up (Setup in read, update and
// cursor mode), an ordered read by up to two of the query's indexes, and three
// optimisations with the test switches (randomBest, ticostAdj, joinRev) and
// the requirement drawn from rapid.
func c22Plans(t *rapid.T, c *caseT) []planT {
	ps := basePlans(c.pi)
	if !c.pi.sorted && len(c.pi.indexes) > 0 && !isEmptyKey(c.pi.indexes) {
		n := min(2, len(c.pi.indexes))
		start := rng(t, "idxstart", 0, len(c.pi.indexes)-1)
		for i := 0; i < n; i++ {
			ix := c.pi.indexes[(start+i)%len(c.pi.indexes)]
			if len(ix) > 0 {
				ps = append(ps, planT{name: "idx", mode: 2, use: "order", cols: ix, frac: 1})
			}
		}
	}
	for i := 0; i < 3; i++ {
		ps = append(ps, drawPlan(t, c.pi, true))
	}
	return ps
}

// TestC22: query results do not depend on optimisation or strategy.
func TestC22(t *testing.T) {
	rec := ev.New("C22", "rapid: database of 2-4 tables (1-6 columns from a shared typed pool; keys incl. composite and empty key, indexes, unique indexes; 0-12 rows of ints/decimals/strings/\"\"/dates/booleans) + 0-2 views, built through admin requests and insert actions; request from a typed grammar (table/view, where, project, remove, rename, extend, summarize, join, leftjoin, semijoin, times, union, intersect, minus; nominal depth <= 4 plus adapting project/rename nodes and view bodies; optional sort). Oracle: own nested-loop evaluator on the query as written, compared as multisets of column->packed value with the engine under Setup(read/update/cursor), ordered reads by index, and Optimize with randomBest/ticostAdj/joinRev and a random legal requirement; Next and Prev. Non-trivial: >= 2 operators incl. a join-like/union-like/summarize operator, non-empty result, >= 2 different strategies chosen across the plans; distinct = query text + database.")
	rec.Assumptions = []string{
		"sortForTest is on (list values and summarize-map output in a defined order; otherwise Go map order)",
		"expressions are total by construction (typed grammar); \"\" ordered against a number/boolean is excluded (documented stored-encoding difference)",
		"summarize min/max of a key returning the whole record is modelled only directly on a table",
		"union/intersect/minus operands have equal column sets, except the request class diffcols: (T remove s) union|minus (T [where s in (\"\", ..)]) in either order, judged against the same request with the column put back as extend s = \"\" (a missing column reads as \"\")",
	}
	defer rec.Write()

	rt.Check(t, rec, "plans", 1500, 30000, func(t *rapid.T) {
		t0 := time.Now()
		var c *caseT
		pct := 4
		if ev.Thorough() {
			pct = 8
		}
		var mk *manyKeyT
		if gen.Chance(t, "manykey", pct) {
			saved := maxModelRows
			maxModelRows = 6000
			defer func() { maxModelRows = saved }()
			c, mk = manyKeyCase(t, rec)
		} else {
			c = newCase(t, rec, maxDepth, "C22")
		}
		if c == nil {
			return
		}
		defer c.d.release()
		if os.Getenv("VERIF_QUERY_SLOW") != "" {
			defer func() {
				if d := time.Since(t0); d > 300*time.Millisecond {
					fmt.Println("SLOW", d, len(c.model.rows), c.text)
				}
			}()
		}
		if !sameSet(c.pi.cols, c.model.cols) {
			t.Fatalf("columns of the parsed query %v differ from the model %v\n%s", c.pi.cols, c.model.cols, c.describe())
		}
		want := canonRows(c.model.cols, c.model.rows)
		strategies := map[string]bool{}
		nplans := 0
		for _, p := range c22Plans(t, c) {
			x, err := setup(c.d, c.text, c.model.cols, p)
			if err == errImpossible {
				rec.Label("plan_impossible_" + p.use)
				continue
			}
			if err != nil {
				if c.knownCrash(rec, "C22", err, "") {
					return
				}
				t.Fatalf("engine failed to set up: %v\nplan: %v\n%s\n%s", err, p, c.describe(), err.stack)
			}
			if !sameSet(x.hdr.Columns, c.model.cols) {
				x.close()
				t.Fatalf("columns of the optimised query %v differ from the model %v\nstrategy: %s\n%s", x.hdr.Columns, c.model.cols, x.strat, c.describe())
			}
			for _, dir := range []core.Dir{core.Next, core.Prev} {
				var got [][]string
				err := catch(func() { got = x.readAll(dir) })
				if err != nil {
					x.close()
					if c.knownCrash(rec, "C22", err, x.strat) {
						return
					}
					t.Fatalf("engine failed reading %c: %v\nplan: %v\nstrategy: %s\n%s\n%s", dir, err, p, x.strat, c.describe(), err.stack)
				}
				if !sameStrings(canonRows(x.cols, got), want) {
					x.close()
					if strings.Contains(x.strat, "project-none") && strings.Contains(x.strat, "summarize-tbl") {
						if e, ok := kf.Known("C22", "projectnone-exact-nrows"); ok {
							rec.Excluded("projectnone-exact-nrows")
							rec.Known(e.What)
							return
						}
					}
					if disjointLookupRe.MatchString(x.strat) {
						if e, ok := kf.Known("C22", "union-disjoint-lookup-probe"); ok {
							rec.Excluded("union-disjoint-lookup-probe")
							rec.Known(e.What)
							return
						}
					}
					if disjointMergeUnderSeq(x.strat) || (disjointMergeRe.MatchString(x.strat) && strings.Contains(x.strat, "union-merge")) {
						if e, ok := kf.Known("C22", "union-disjoint-merge-order"); ok {
							rec.Excluded("union-disjoint-merge-order")
							rec.Known(e.What)
							return
						}
					}
					t.Fatalf("%s", c.mismatch(fmt.Sprintf("C22: rows read with %c differ from the relational meaning of the query as written", dir), x, got))
				}
			}
			x.close()
			nplans++
			strategies[x.strat] = true
			rec.Label("plan_" + p.name + "_" + p.use)
			for _, f := range stratFeatures(x.strat) {
				rec.Label("strat_" + f)
			}
		}
		nt := len(c.ops) >= 2 && c.bigOp() && len(c.model.rows) > 0 && len(strategies) >= 2
		rec.Case(nt, c.text+"\n"+c.d.describe())
		c.labels(rec)
		rec.LabelN("plans_run", nplans)
		rec.LabelIf(len(strategies) >= 2, "strategies>=2")
		if mk != nil {
			rec.Label("manykey_case")
			rec.LabelIf(mk.distinct > 223, "manykey_distinct_lookup_keys>223")
			rec.LabelIf(mk.relookups > 0, "manykey_relookup_of_evicted_key")
			rec.LabelN("manykey_relookups_of_evicted_keys_total", mk.relookups)
			lookup := false
			for s := range strategies {
				if strings.Contains(s, "n:1") || strings.Contains(s, "intersect") || strings.Contains(s, "minus") || strings.Contains(s, "union-lookup") {
					lookup = true
				}
			}
			rec.LabelIf(lookup, "manykey_lookup_strategy(n:1/intersect/minus/union-lookup)")
		}
		if c.multiFixedLeading() {
			rec.Label("multi_fixed_on_leading_index_col")
			seq := false
			for s := range strategies {
				if strings.Contains(s, "project-seq") || strings.Contains(s, "summarize-seq") {
					seq = true
				}
			}
			rec.LabelIf(seq, "seq_strategy_above_multi_fixed")
			rec.LabelIf(c.hasOp("project", "remove", "summarize"), "grouping_above_multi_fixed")
		}
		cls := "query"
		if len(c.ops) > 0 {
			cls = "query_" + c.ops[0]
		}
		if nt && rec.WantSample(cls) {
			ss := []string{}
			for s := range strategies {
				ss = append(ss, s)
			}
			sort.Strings(ss)
			rec.Sample(cls, map[string]any{"query": c.text, "database": strings.Split(strings.TrimSpace(c.d.describe()), "\n"),
				"result_rows": len(c.model.rows), "strategies": ss})
		}
	})
}

// manyKeyT describes the lookup pattern of a many-key case.
type manyKeyT struct {
	distinct  int // distinct lookup keys
	relookups int // lookups of a key that an LRU of 223 entries would have evicted
}

// manyKeyCase: a "one" table tone (260-380 rows, key(k)) and a "many" table
// tmany (3-5 times as many rows, key(k2)) whose column k refers to tone's keys
// at random with replacement and some locality, so that a lookup cache of ~223
// entries keeps a hit rate well above 25 % and keys are looked up again after
// they have been evicted. Requests: tmany join/leftjoin tone (many to one
// lookups) with where/extend/rename around, or intersect/minus/union of
// projections of the two tables on k.
func manyKeyCase(t *rapid.T, rec *ev.Rec) (*caseT, *manyKeyT) {
	pk := func(i int) string { return core.Pack(core.IntVal(i).(core.Packable)) }
	nk := rng(t, "mk_nkeys", 260, 380)
	one := &tableT{name: "tone", cols: []colT{{name: "k", typ: tNum}, {name: "n1", typ: tNum}, {name: "s1", typ: tStr}}, keys: [][]string{{"k"}}}
	missing := map[int]bool{}
	for i := 0; i < rng(t, "mk_nmissing", 0, 4); i++ {
		missing[rng(t, "mk_missing", 1, nk)] = true
	}
	for i := 1; i <= nk; i++ {
		if !missing[i] {
			one.rows = append(one.rows, []string{pk(i), pk(5000 + i), strLits[1+i%5].packed})
		}
	}
	many := &tableT{name: "tmany", cols: []colT{{name: "k2", typ: tNum}, {name: "k", typ: tNum}, {name: "n2", typ: tNum}}, keys: [][]string{{"k2"}}}
	if gen.Chance(t, "mk_manyidx", 25) {
		many.indexes = [][]string{{"n2"}}
	}
	nm := nk * rng(t, "mk_factor", 3, 5)
	var seq []int
	for i := 1; i <= nm; i++ {
		fk := rng(t, "mk_fk", 1, nk)
		if len(seq) > 3 && gen.Chance(t, "mk_local", 30) {
			fk = seq[len(seq)-1-gen.Uniform(t, "mk_back", 3)]
		}
		seq = append(seq, fk)
		many.rows = append(many.rows, []string{pk(i), pk(fk), pk(i % 7)})
	}
	// what an LRU of 223 entries sees when the keys are looked up in this order
	mk := &manyKeyT{}
	var lru []int
	seen := map[int]bool{}
	for _, fk := range seq {
		pos := -1
		for i, x := range lru {
			if x == fk {
				pos = i
			}
		}
		if pos >= 0 {
			lru = append(lru[:pos], lru[pos+1:]...)
		} else if seen[fk] {
			mk.relookups++
		}
		seen[fk] = true
		lru = append(lru, fk)
		if len(lru) > 223 {
			lru = lru[1:]
		}
	}
	mk.distinct = len(seen)
	small := genTable(t, "ta", "")
	d := &dbT{tables: []*tableT{one, many, small}}
	g := &qgen{t: t, db: d}
	var q *qnode
	l, r := tableNode(many), tableNode(one)
	switch gen.Weighted(t, "mk_shape", []int{5, 3, 1, 1, 1}) {
	case 0, 1:
		if gen.Chance(t, "mk_wl", 25) {
			l = g.where(l)
		}
		if gen.Chance(t, "mk_wr", 20) {
			r = g.where(r)
		}
		q = g.join([]string{"join", "leftjoin"}[gen.Uniform(t, "mk_op", 2)], l, r)
	case 2, 3, 4:
		pl := &qnode{op: "project", src: l, cols: []string{"k"}, out: []colT{{name: "k", typ: tNum}}}
		pr := &qnode{op: "project", src: r, cols: []string{"k"}, out: []colT{{name: "k", typ: tNum}}}
		op := []string{"intersect", "minus", "union"}[gen.Uniform(t, "mk_cop", 3)]
		q = &qnode{op: op, src: pl, src2: pr, out: pl.out}
		if gen.Chance(t, "mk_swap", 40) {
			q.src, q.src2 = pr, pl
		}
	}
	switch gen.Uniform(t, "mk_wrap", 6) {
	case 0:
		q = g.where(q)
	case 1:
		q = g.extend(q)
	case 2:
		q = g.rename(q)
	}
	tq := &topQ{q: q}
	if gen.Chance(t, "mk_sort", 20) {
		if _, ok := q.outCol("k2"); ok {
			tq.sort = []string{"k2"}
			tq.reverse = gen.Chance(t, "reverse", 50)
		}
	}
	return finishCase(t, rec, d, tq, "C22"), mk
}
