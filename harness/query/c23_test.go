package query

import (
	"fmt"
	"regexp"
	"strings"
	"testing"

	"github.com/apmckinlay/gsuneido/core"
	qry "github.com/apmckinlay/gsuneido/dbms/query"
	"pgregory.net/rapid"
	"verifharness/internal/ev"
	"verifharness/internal/kf"
	"verifharness/internal/rt"
)

// cursor is the model of the Get contract over the Next list L:
// Rewind then Next gives the first, Rewind then Prev the last; a Get that
// runs off either end returns nil and sticks there until Rewind.
type cursor struct {
	n   int
	pos int // index of the last returned row
	st  int // 0 rewound, 1 within, 2 eof
}

func (c *cursor) rewind() { c.st = 0 }

func (c *cursor) get(dir core.Dir) int {
	switch c.st {
	case 2:
		return -1
	case 0:
		if dir == core.Next {
			c.pos = 0
		} else {
			c.pos = c.n - 1
		}
	default:
		if dir == core.Next {
			c.pos++
		} else {
			c.pos--
		}
	}
	if c.pos < 0 || c.pos >= c.n {
		c.st = 2
		return -1
	}
	c.st = 1
	return c.pos
}

func sameRow(a, b []string) bool {
	if (a == nil) != (b == nil) || len(a) != len(b) {
		return false
	}
	for i := range a {
		if a[i] != b[i] {
			return false
		}
	}
	return true
}

func sameRows(a, b [][]string) bool {
	if len(a) != len(b) {
		return false
	}
	for i := range a {
		if !sameRow(a[i], b[i]) {
			return false
		}
	}
	return true
}

func reversed(a [][]string) [][]string {
	r := make([][]string, len(a))
	for i := range a {
		r[len(a)-1-i] = a[i]
	}
	return r
}

func colIdx(cols []string, c string) int {
	for i, x := range cols {
		if x == c {
			return i
		}
	}
	return -1
}

// cmpOn compares two rows on cols by packed value.
func cmpOn(cols []string, on []string, a, b []string) int {
	for _, c := range on {
		i := colIdx(cols, c)
		if x := strings.Compare(a[i], b[i]); x != 0 {
			return x
		}
	}
	return 0
}

func matches(cols []string, row []string, sels map[string]string, only []string) bool {
	for c, v := range sels {
		if only != nil && !contains(only, c) {
			continue
		}
		if row[colIdx(cols, c)] != v {
			return false
		}
	}
	return true
}

func mkSels(t *rapid.T, sels map[string]string, order []string) qry.Sels {
	cols := append([]string(nil), order...)
	for i := 0; i < len(cols)-1; i++ {
		j := i + uni(t, "selorder", len(cols)-i)
		cols[i], cols[j] = cols[j], cols[i]
	}
	var r qry.Sels
	for _, c := range cols {
		r = append(r, qry.NewSel(c, sels[c]))
	}
	return r
}

// absentValue returns a packed value that no row of L has in col.
func absentValue(t *rapid.T, cols []string, L [][]string, col string) (string, bool) {
	i := colIdx(cols, col)
	var cand []string
	for _, l := range append(append([]lit(nil), mixLits()...), keyLits...) {
		found := false
		for _, r := range L {
			if r[i] == l.packed {
				found = true
				break
			}
		}
		if !found {
			cand = append(cand, l.packed)
		}
	}
	if len(cand) == 0 {
		return "", false
	}
	return pickOf(t, "absent", cand), true
}

var disjointMergeRe = regexp.MustCompile(`union-disjoint\(([a-z0-9_]*)\)-merge`)

// disjointMergeOrder: the strategy merges a disjoint union and the violated
// order names the disjoint column (known finding union-disjoint-merge-order).
func disjointMergeOrder(strat, msg string) bool {
	first := strings.SplitN(msg, "\n", 2)[0]
	if strings.HasPrefix(first, "rows not") && disjointMergeRe.MatchString(strat) {
		// any column fixed to different values in the operands (the
		// disjoint column, or another constant extend) is affected
		return true
	}
	for _, m := range disjointMergeRe.FindAllStringSubmatch(strat, -1) {
		if regexp.MustCompile(`\b` + regexp.QuoteMeta(m[1]) + `\b`).MatchString(first) {
			return true
		}
		// the disjoint column may have been renamed above the union
		for _, r := range regexp.MustCompile(`\b`+regexp.QuoteMeta(m[1])+` to ([a-z0-9_]+)`).FindAllStringSubmatch(strat, -1) {
			if regexp.MustCompile(`\b` + regexp.QuoteMeta(r[1]) + `\b`).MatchString(first) {
				return true
			}
		}
	}
	return false
}

// disjointMergeUnderSeq: a summarize-seq/project-seq groups by the disjoint
// column of a union-disjoint(col)-merge below it (same known finding: the
// merge does not deliver the rows grouped by col).
func disjointMergeUnderSeq(strat string) bool {
	for _, m := range disjointMergeRe.FindAllStringSubmatch(strat, -1) {
		if regexp.MustCompile(`(summarize|project)-seq[^()]*\b` + regexp.QuoteMeta(m[1]) + `\b`).MatchString(strat) {
			return true
		}
	}
	return false
}

type c23stats struct {
	dirChanges int
	hits       int
	misses     int
}

// TestC23: query access operations honour their contracts.
func TestC23(t *testing.T) {
	rec := ev.New("C23", "rapid: same databases/requests/plans as C22 (Setup read/update/cursor; Optimize+SetApproach with a random legal requirement none/order/group/unique and randomised test switches). Checked against the Next list L of the same plan: Rewind+all Prev = reverse(L); walks of Next/Prev/Rewind against a cursor model incl. sticking at eof; order(cols): L sorted by packed cols, group(cols): equal cols contiguous, sort: sorted; unique(cols): Lookup with sels on exactly cols (+ optional extra columns) for present rows, absent values, wrong extra values; order/group(cols): Select on exactly cols hit/miss then Next and Prev, Select(nil) restores L; every Keys() entry unique over L, every Fixed() value list contains the row's value. Operations are limited to those legal for the requirement (require.go). Non-trivial: walk with >= 1 direction change and >= 1 Select/Lookup hit and miss; distinct = query text + database + plan.")
	rec.Assumptions = []string{
		"sortForTest is on (deterministic list values / summarize-map order)",
		"Select sels cover exactly the required columns; Lookup sels cover them, optionally plus extra columns of the query (query.go: extra columns are ignored, the caller filters)",
		"rows are compared by column values (packed), not by record identity",
	}
	defer rec.Write()

	rt.Check(t, rec, "contracts", 1200, 30000, func(t *rapid.T) {
		c := newCase(t, rec, maxDepth, "C23")
		if c == nil {
			return
		}
		defer c.d.release()
		c.labels(rec)
		plans := basePlans(c.pi)
		for i := 0; i < 3; i++ {
			plans = append(plans, drawPlan(t, c.pi, i > 0))
		}
		for _, p := range plans {
			x, err := setup(c.d, c.text, c.model.cols, p)
			if err == errImpossible {
				rec.Label("plan_impossible_" + p.use)
				continue
			}
			if err != nil {
				if c.knownCrash(rec, "C23", err, "") {
					return
				}
				t.Fatalf("engine failed to set up: %v\nplan: %v\n%s\n%s", err, p, c.describe(), err.stack)
			}
			var st c23stats
			var msg string
			err = catch(func() { msg = c.contracts(t, x, &st) })
			x.close()
			if err != nil {
				if c.knownCrash(rec, "C23", err, x.strat) {
					return
				}
				t.Fatalf("engine panicked: %v\nplan: %v\nstrategy: %s\n%s\n%s", err, p, x.strat, c.describe(), err.stack)
			}
			if msg != "" {
				if (strings.HasPrefix(msg, "rows not") && disjointMergeOrder(x.strat, msg)) ||
					(strings.HasPrefix(msg, "Keys()") && disjointMergeUnderSeq(x.strat)) {
					if e, ok := kf.Known("C23", "union-disjoint-merge-order"); ok {
						rec.Excluded("union-disjoint-merge-order")
						rec.Known(e.What)
						return
					}
				}
				t.Fatalf("C23: %s\nplan: %v\nstrategy: %s\n%s", msg, p, x.strat, c.describe())
			}
			nt := st.dirChanges >= 1 && st.hits >= 1 && st.misses >= 1
			rec.Case(nt, c.text+"\n"+c.d.describe()+"\n"+p.String())
			rec.Label("plan_" + p.name + "_" + p.use)
			rec.LabelIf(st.dirChanges > 0, "walk_with_direction_change")
			rec.LabelIf(st.hits > 0 && p.use == "unique", "lookup_hit")
			rec.LabelIf(st.misses > 0 && p.use == "unique", "lookup_miss")
			rec.LabelIf(st.hits > 0 && (p.use == "order" || p.use == "group"), "select_hit")
			rec.LabelIf(st.misses > 0 && (p.use == "order" || p.use == "group"), "select_miss")
			for _, f := range stratFeatures(x.strat) {
				rec.Label("strat_" + f)
			}
			if nt && rec.WantSample("plan_"+p.use) {
				rec.Sample("plan_"+p.use, map[string]any{"query": c.text, "plan": p.String(), "strategy": x.strat,
					"database": strings.Split(strings.TrimSpace(c.d.describe()), "\n")})
			}
		}
	})
}

func showRow(cols []string, r []string) string {
	if r == nil {
		return "nil"
	}
	parts := make([]string, len(cols))
	for i, c := range cols {
		parts[i] = c + ": " + unpackStr(r[i])
	}
	return "[" + strings.Join(parts, ", ") + "]"
}

func showList(cols []string, rows [][]string) string {
	var sb strings.Builder
	for i, r := range rows {
		if i >= 30 {
			sb.WriteString(fmt.Sprintf("    ... %d more\n", len(rows)-i))
			break
		}
		sb.WriteString("    " + showRow(cols, r) + "\n")
	}
	return sb.String()
}

// contracts runs every check on one plan; it returns "" or a description of
// the violated contract.
func (c *caseT) contracts(t *rapid.T, x *execT, st *c23stats) string {
	cols := x.cols
	p := x.plan
	L := x.readAll(core.Next)
	if len(L) > maxModelRows {
		return ""
	}
	// Rewind + all Prev = reverse(L)
	if P := x.readAll(core.Prev); !sameRows(P, reversed(L)) {
		return "Rewind + Prev does not return the rows of Rewind + Next in opposite order\nNext:\n" +
			showList(cols, L) + "Prev:\n" + showList(cols, P)
	}
	if msg := c.walk(t, x, L, st, "walk"); msg != "" {
		return msg
	}
	// requested order
	switch {
	case p.use == "order":
		for i := 1; i < len(L); i++ {
			if cmpOn(cols, p.cols, L[i-1], L[i]) > 0 {
				return fmt.Sprintf("rows not in the required order %v at %d\n%s", p.cols, i, showList(cols, L))
			}
		}
	case p.use == "group":
		seen := map[string]bool{}
		for i, r := range L {
			if i > 0 && cmpOn(cols, p.cols, L[i-1], r) == 0 {
				continue
			}
			k := ""
			for _, pc := range p.cols {
				k += fmt.Sprint(len(r[colIdx(cols, pc)]), ":", r[colIdx(cols, pc)])
			}
			if seen[k] {
				return fmt.Sprintf("rows not grouped by %v at %d\n%s", p.cols, i, showList(cols, L))
			}
			seen[k] = true
		}
	case len(c.tq.sort) > 0:
		for i := 1; i < len(L); i++ {
			cmp := cmpOn(cols, c.tq.sort, L[i-1], L[i])
			if (cmp > 0 && !c.tq.reverse) || (cmp < 0 && c.tq.reverse) {
				return fmt.Sprintf("rows not sorted by %v (reverse %v) at %d\n%s", c.tq.sort, c.tq.reverse, i, showList(cols, L))
			}
		}
	}
	// Keys() and Fixed(), of the query as parsed and as set up
	keysets := [][][]string{c.pi.keys, x.q.Keys()}
	for ki, keys := range keysets {
		for _, key := range keys {
			seen := map[string]int{}
			for i, r := range L {
				k := ""
				for _, kc := range key {
					j := colIdx(cols, kc)
					if j < 0 {
						return fmt.Sprintf("Keys() %v names %s which is not a column", keys, kc)
					}
					k += fmt.Sprint(len(r[j]), ":", r[j])
				}
				if j, dup := seen[k]; dup {
					return fmt.Sprintf("Keys() (%s) reports %v as a key but rows %d and %d agree on it\n%s",
						[]string{"parsed query", "query set up"}[ki], key, j, i, showList(cols, L))
				}
				seen[k] = i
			}
		}
	}
	for _, f := range qry.VerifFixed(x.q) {
		j := colIdx(cols, f.Col)
		if j < 0 {
			continue
		}
		for i, r := range L {
			if !contains(f.Values, r[j]) {
				vals := []string{}
				for _, v := range f.Values {
					vals = append(vals, unpackStr(v))
				}
				return fmt.Sprintf("Fixed() reports %s in (%s) but row %d has another value\n%s", f.Col,
					strings.Join(vals, ", "), i, showList(cols, L))
			}
		}
	}
	// Lookup (unique) / Select (order, group)
	switch p.use {
	case "unique":
		if msg := c.lookups(t, x, L, st); msg != "" {
			return msg
		}
	case "order", "group":
		if msg := c.selects(t, x, L, st); msg != "" {
			return msg
		}
	}
	// nothing may be left behind
	if again := x.readAll(core.Next); !sameRows(again, L) {
		return "reading again after the Select/Lookup calls differs from the first read\nfirst:\n" +
			showList(cols, L) + "again:\n" + showList(cols, again)
	}
	return ""
}

// walk does random Next/Prev/Rewind steps against the cursor model over rows.
func (c *caseT) walk(t *rapid.T, x *execT, rows [][]string, st *c23stats, label string) string {
	cur := &cursor{n: len(rows)}
	x.q.Rewind()
	hist := "R"
	nsteps := min(40, 3*len(rows)+6)
	lastDir := core.Dir(0)
	for i := 0; i < nsteps; i++ {
		k := uni(t, label, 16)
		if cur.st == 2 && k < 12 {
			k = 15 // mostly rewind at eof, sometimes check that eof sticks
		}
		if k == 15 {
			x.q.Rewind()
			cur.rewind()
			hist += "R"
			lastDir = 0
			continue
		}
		dir := core.Next
		if k%2 == 1 {
			dir = core.Prev
		}
		if lastDir != 0 && dir != lastDir && cur.st == 1 {
			st.dirChanges++
		}
		lastDir = dir
		hist += string(rune(dir))
		want := cur.get(dir)
		got := x.get(dir)
		var wantRow []string
		if want >= 0 {
			wantRow = rows[want]
		}
		if !sameRow(got, wantRow) {
			return fmt.Sprintf("%s %s (R rewind, + next, - prev): got %s, want %s (row %d of the Next list)\nNext list:\n%s",
				label, hist, showRow(x.cols, got), showRow(x.cols, wantRow), want, showList(x.cols, rows))
		}
	}
	return ""
}

func (c *caseT) lookups(t *rapid.T, x *execT, L [][]string, st *c23stats) string {
	cols := x.cols
	p := x.plan
	extraCand := without(cols, p.cols)
	for i := 0; i < 6; i++ {
		sels := map[string]string{}
		order := append([]string(nil), p.cols...)
		kind := uni(t, "lookupkind", 4) // 0,1 present  2 absent  3 present + wrong extra
		if len(L) == 0 {
			kind = 2
		}
		var src []string
		if len(L) > 0 {
			src = L[uni(t, "lookuprow", len(L))]
			for _, pc := range p.cols {
				sels[pc] = src[colIdx(cols, pc)]
			}
		} else {
			for _, pc := range p.cols {
				sels[pc] = pickOf(t, "lookupval", mixLits()).packed
			}
		}
		wantHit := kind <= 1
		if kind == 2 {
			pc := pickOf(t, "abscol", p.cols)
			v, ok := absentValue(t, cols, L, pc)
			if !ok {
				continue
			}
			sels[pc] = v
		}
		// extra columns beyond the requirement: allowed, ignored by Lookup
		if len(extraCand) > 0 && src != nil && (kind == 1 || kind == 3) {
			ec := pickOf(t, "extracol", extraCand)
			sels[ec] = src[colIdx(cols, ec)]
			if kind == 3 {
				v, ok := absentValue(t, cols, L, ec)
				if !ok {
					continue
				}
				sels[ec] = v
			}
			order = append(order, ec)
		} else if kind == 3 {
			continue
		}
		c.extraSels = len(order) > len(p.cols)
		row := x.q.Lookup(x.th, mkSels(t, sels, order))
		c.extraSels = false
		var got []string
		if row != nil {
			got = x.vals(row)
		}
		// the row returned must be a row of the query that matches on the
		// required columns; the caller filters on all sels
		if got != nil {
			found := false
			for _, r := range L {
				if sameRow(r, got) {
					found = true
				}
			}
			if !found {
				return fmt.Sprintf("Lookup(%s) returned %s which is not a row of the query\n%s", showSels(sels, order), showRow(cols, got), showList(cols, L))
			}
		}
		filtered := got
		if got != nil && !matches(cols, got, sels, nil) {
			filtered = nil
		}
		var want []string
		for _, r := range L {
			if matches(cols, r, sels, nil) {
				want = r
			}
		}
		if !sameRow(filtered, want) {
			return fmt.Sprintf("Lookup(%s): got %s, after filtering on the sels %s, want %s\n%s", showSels(sels, order),
				showRow(cols, got), showRow(cols, filtered), showRow(cols, want), showList(cols, L))
		}
		if wantHit && want != nil {
			st.hits++
		} else if want == nil {
			st.misses++
		}
	}
	return ""
}

func showSels(sels map[string]string, order []string) string {
	parts := []string{}
	for _, c := range order {
		parts = append(parts, c+": "+unpackStr(sels[c]))
	}
	return strings.Join(parts, ", ")
}

func (c *caseT) selects(t *rapid.T, x *execT, L [][]string, st *c23stats) string {
	cols := x.cols
	p := x.plan
	for i := 0; i < 4; i++ {
		sels := map[string]string{}
		order := append([]string(nil), p.cols...)
		kind := uni(t, "selectkind", 4) // 0,1,3 present  2 absent
		if len(L) == 0 {
			kind = 2
		}
		var src []string
		if len(L) > 0 {
			src = L[uni(t, "selectrow", len(L))]
			for _, pc := range p.cols {
				sels[pc] = src[colIdx(cols, pc)]
			}
		} else {
			for _, pc := range p.cols {
				sels[pc] = pickOf(t, "selectval", mixLits()).packed
			}
		}
		if kind == 2 {
			pc := pickOf(t, "abscol", p.cols)
			v, ok := absentValue(t, cols, L, pc)
			if !ok {
				continue
			}
			sels[pc] = v
		}
		// sels cover exactly the required columns (extra-column sels are
		// only exercised for Lookup, where the caller filters)
		extra := false
		if kind == 3 {
			kind = 0
		}
		x.q.Select(mkSels(t, sels, order))
		S := x.readRest(core.Next)
		// expected: rows matching on the required columns; extra columns
		// may or may not be applied
		var upper, lower [][]string
		for _, r := range L {
			if matches(cols, r, sels, p.cols) {
				upper = append(upper, r)
				if matches(cols, r, sels, nil) {
					lower = append(lower, r)
				}
			}
		}
		desc := "Select(" + showSels(sels, order) + ")"
		if !extra {
			if !sameStrings(canonRows(cols, S), canonRows(cols, upper)) {
				return fmt.Sprintf("%s then Next returns\n%swant the matching rows\n%sof\n%s", desc, showList(cols, S), showList(cols, upper), showList(cols, L))
			}
		} else {
			if !subMultiset(canonRows(cols, lower), canonRows(cols, S)) || !subMultiset(canonRows(cols, S), canonRows(cols, upper)) {
				return fmt.Sprintf("%s then Next returns\n%swant between\n%sand\n%s", desc, showList(cols, S), showList(cols, lower), showList(cols, upper))
			}
		}
		if p.use == "order" {
			for j := 1; j < len(S); j++ {
				if cmpOn(cols, p.cols, S[j-1], S[j]) > 0 {
					return fmt.Sprintf("%s: rows not in the required order %v\n%s", desc, p.cols, showList(cols, S))
				}
			}
		}
		// Rewind does not clear the select; Prev gives the opposite order
		if P := x.readAll(core.Prev); !sameRows(P, reversed(S)) {
			return fmt.Sprintf("%s: Rewind + Prev is not the reverse of Next\nNext:\n%sPrev:\n%s", desc, showList(cols, S), showList(cols, P))
		}
		if i == 0 && len(S) > 1 {
			if msg := c.walk(t, x, S, st, "walk after "+desc); msg != "" {
				return msg
			}
		}
		if len(S) > 0 {
			st.hits++
		} else {
			st.misses++
		}
		x.q.Select(nil)
		if i%2 == 1 {
			if again := x.readRest(core.Next); !sameRows(again, L) {
				return fmt.Sprintf("%s then Select(nil): reading differs from the unrestricted read\n%swant\n%s", desc, showList(cols, again), showList(cols, L))
			}
		}
	}
	return ""
}

// subMultiset: sorted a is contained in sorted b.
func subMultiset(a, b []string) bool {
	j := 0
	for _, s := range a {
		for j < len(b) && b[j] < s {
			j++
		}
		if j >= len(b) || b[j] != s {
			return false
		}
		j++
	}
	return true
}
