package query

import (
	"errors"
	"fmt"
	"regexp"
	"strings"
	"testing"

	"github.com/apmckinlay/gsuneido/core"
	qry "github.com/apmckinlay/gsuneido/dbms/query"
	"pgregory.net/rapid"
	"verifharness/internal/ev"
	"verifharness/internal/gen"
	"verifharness/internal/kf"
	"verifharness/internal/rt"
)

// stmtT is one generated statement with the model's prediction.
type stmtT struct {
	kind  string // insert-record insert-query update delete
	text  string
	table *tableT
	q     *qnode // the query of update/delete, the source of insert-query

	// prediction
	skip      string     // not judged (why)
	wantErr   bool       // must fail, table unchanged
	either    bool       // outcome depends on the iteration order: fail+unchanged or succeed+after
	count     int        // rows reported on success
	after     [][]string // table contents on success
	changed   int        // rows inserted/updated/deleted
	untouched int        // rows of the table left alone
	known     string     // known-finding key whose class the statement belongs to
}

func (d *dbT) selectable(t *rapid.T, g *qgen, tb *tableT, forUpdate bool) (*qnode, bool) {
	q := tableNode(tb)
	updateable := true
	n := gen.Weighted(t, "nwhere", []int{2, 6, 2})
	for i := 0; i < n; i++ {
		q = g.where(q)
	}
	k := gen.Uniform(t, "shape", 20)
	switch {
	case k == 0 || (forUpdate && k == 5): // rename then where on the new names
		q = g.where(g.rename(q))
	case k == 1: // extend then where
		q = g.where(g.extend(q))
	case (k == 2 || (forUpdate && (k == 6 || k == 7))) && n == 0: // project: updateable iff it keeps a key
		p := g.project(q, false)
		if p != q {
			updateable = false
			for _, key := range tb.keys {
				if len(common(key, p.cols)) == len(key) {
					updateable = true
				}
			}
			q = p
			if updateable && gen.Chance(t, "projwhere", 40) {
				q = g.where(q)
			}
		}
	case k == 3: // not updateable: summarize
		q = g.summarize(q)
		updateable = false
	case k == 4 && len(d.tables) > 1: // not updateable: join / union with another table
		other := d.tables[(indexOfTable(d, tb)+1)%len(d.tables)]
		if gen.Chance(t, "nujoin", 50) {
			j := g.join("join", q, tableNode(other))
			if j != q {
				q = j
				updateable = false
			}
		} else {
			q = g.compatible("union", q, 0)
			updateable = false
		}
	}
	return q, updateable
}

// allNonEmpty: every node of q has a non-empty model result (so no part of
// the query can be simplified away as a contradiction by Transform, which
// would change what is updateable).
func (d *dbT) allNonEmpty(q *qnode) bool {
	ok := true
	q.walk(func(n *qnode) {
		if r, err := d.eval(n); err != nil || len(r.rows) == 0 {
			ok = false
		}
	})
	return ok
}

func indexOfTable(d *dbT, tb *tableT) int {
	for i, x := range d.tables {
		if x == tb {
			return i
		}
	}
	return 0
}

func copyRows(rows [][]string) [][]string {
	r := make([][]string, len(rows))
	for i := range rows {
		r[i] = append([]string(nil), rows[i]...)
	}
	return r
}

// selectedRows evaluates q (a query over tb that keeps tb's rows apart:
// where/rename/extend/project with key) and returns the indexes of the
// selected rows of tb.
func (d *dbT) selectedRows(q *qnode, tb *tableT) ([]int, error) {
	// evaluate on a copy of the table extended with a row number
	savedRows := tb.rows
	defer func() { tb.rows = savedRows }()
	var sel []int
	for i := range savedRows {
		tb.rows = savedRows[i : i+1]
		r, err := d.eval(q)
		if err != nil {
			return nil, err
		}
		if len(r.rows) > 0 {
			sel = append(sel, i)
		}
	}
	return sel, nil
}

// indexCmp compares the positions of two rows in an index: the index
// columns followed by the columns of the keys (db19 appends key fields to make
// non-unique index entries unique), field by field in packed order.
func indexCmp(tb *tableT, ix []string, a, b []string) int {
	cols := append([]string(nil), ix...)
	for _, k := range tb.keys {
		for _, c := range k {
			if !contains(cols, c) {
				cols = append(cols, c)
			}
		}
	}
	for _, c := range cols {
		i := tb.colIndex(c)
		if x := strings.Compare(a[i], b[i]); x != 0 {
			return x
		}
	}
	return 0
}

func (d *dbT) genStmt(t *rapid.T) *stmtT {
	tb := pickOf(t, "target", d.tables)
	s := &stmtT{table: tb}
	g := &qgen{t: t, db: &dbT{tables: d.tables}}
	switch gen.Weighted(t, "stmt", []int{2, 2, 4, 3}) {
	case 0:
		s.kind = "insert-record"
		cols := subsetOf(t, tb.colNames(), 1, len(tb.cols), "inscols")
		row := make([]string, len(tb.cols))
		var parts []string
		for _, c := range tb.colNames() {
			if contains(cols, c) {
				l := pickOf(t, "insval", poolOf(c).lits())
				row[tb.colIndex(c)] = l.packed
				parts = append(parts, c+": "+l.src)
			}
		}
		s.text = "insert { " + strings.Join(parts, ", ") + " } into " + tb.name
		s.after = append(copyRows(tb.rows), row)
		s.count, s.changed, s.untouched = 1, 1, len(tb.rows)
		s.wantErr = violates(tb, s.after) != ""
	case 1:
		s.kind = "insert-query"
		g.only = map[string]bool{}
		for _, x := range d.tables {
			if x != tb {
				g.only[x.name] = true
			}
		}
		var q *qnode
		for try := 0; try < 3; try++ {
			q = g.gen(rng(t, "srcdepth", 0, 2))
			if len(common(q.outNames(), tb.colNames())) > 0 {
				break
			}
		}
		s.q = q
		s.text = "insert " + q.lhs() + " into " + tb.name
		for name := range q.tables() {
			for _, u := range d.table(name).uniques {
				if !hasSet(d.table(name).keys, u) {
					s.skip = "source reads a table with a unique index (classes excluded under C22)"
				}
			}
		}
		if s.skip != "" {
			return s
		}
		if contains(q.ops(), "semijoin") {
			for name := range q.tables() {
				if hasSet(d.table(name).keys, []string{}) {
					s.skip = "source with semijoin over an empty-key table (class excluded under C22)"
					return s
				}
			}
		}
		if shadowSumUnderWhere(q, nil, false) || hasShadowSummarize(q) || wholeRowFlips(q, false) || wholeRowInside(q, true) || orWithEmptyTerm(q) {
			s.skip = "source query in a class excluded under C22"
			return s
		}
		src, err := d.eval(q)
		if err != nil {
			s.skip = "source: " + err.Error()
			return s
		}
		s.after = copyRows(tb.rows)
		for _, r := range src.rows {
			row := make([]string, len(tb.cols))
			for i, c := range tb.cols {
				if j := src.idx(c.name); j >= 0 {
					row[i] = r[j]
				}
			}
			s.after = append(s.after, row)
		}
		s.count, s.changed, s.untouched = len(src.rows), len(src.rows), len(tb.rows)
		s.wantErr = violates(tb, s.after) != ""
	case 2:
		s.kind = "update"
		q, updateable := d.selectable(t, g, tb, true)
		s.q = q
		// the table columns the query still shows, with their names in the query
		qname := map[string]string{}
		var settable []string
		if contains(q.ops(), "project") || contains(q.ops(), "remove") {
			for _, c := range tb.colNames() {
				if _, ok := q.outCol(c); ok {
					qname[c] = c
					settable = append(settable, c)
				}
			}
		} else if len(q.out) >= len(tb.cols) { // where / rename / extend keep the table's columns first
			for j, c := range tb.colNames() {
				qname[c] = q.out[j].name
				settable = append(settable, c)
			}
		}
		if len(settable) == 0 {
			s.skip = "update: no settable column"
			return s
		}
		nset := rng(t, "nset", 1, min(2, len(settable)))
		setCols := subsetOf(t, settable, nset, nset, "setcols")
		var exprs []*exprT
		var parts []string
		eg := g.exprGen(q.out)
		for _, c := range setCols {
			e := eg.value(poolOf(c).typ, false)
			exprs = append(exprs, e)
			parts = append(parts, qname[c]+" = "+e.String())
		}
		s.text = "update " + q.String() + " set " + strings.Join(parts, ", ")
		if !updateable {
			s.wantErr = true
			s.after = tb.rows
			if !d.allNonEmpty(q) {
				s.skip = "not updateable form with an empty part"
			}
			return s
		}
		d.predictUpdate(s, q, setCols, exprs)
	default:
		s.kind = "delete"
		q, updateable := d.selectable(t, g, tb, false)
		s.q = q
		s.text = "delete " + q.String()
		if !updateable {
			s.wantErr = true
			s.after = tb.rows
			if !d.allNonEmpty(q) {
				s.skip = "not updateable form with an empty part"
			}
			return s
		}
		sel, err := d.selectedRows(q, tb)
		if err != nil {
			s.skip = err.Error()
			return s
		}
		del := map[int]bool{}
		for _, i := range sel {
			del[i] = true
		}
		for i, r := range tb.rows {
			if !del[i] {
				s.after = append(s.after, r)
			}
		}
		s.count, s.changed, s.untouched = len(sel), len(sel), len(tb.rows)-len(sel)
	}
	return s
}

// predictUpdate: every selected row gets the set expressions evaluated on its
// ORIGINAL values (all assignments of one statement see the old row).
func (d *dbT) predictUpdate(s *stmtT, q *qnode, setCols []string, exprs []*exprT) {
	tb := s.table
	sel, err := d.selectedRows(q, tb)
	if err != nil {
		s.skip = err.Error()
		return
	}
	s.after = copyRows(tb.rows)
	isSel := map[int]bool{}
	for _, i := range sel {
		isSel[i] = true
		// the row as the query presents it (incl. extend columns)
		saved := tb.rows
		tb.rows = saved[i : i+1]
		r, err := d.eval(q)
		tb.rows = saved
		if err != nil || len(r.rows) != 1 {
			s.skip = "update: cannot evaluate the selected row"
			return
		}
		e := r.env(r.rows[0])
		for j, c := range setCols {
			p, err := exprs[j].evalPacked(e)
			if err != nil {
				s.skip = "set expression: " + err.Error()
				return
			}
			s.after[i][tb.colIndex(c)] = p
		}
	}
	s.count, s.changed, s.untouched = len(sel), len(sel), len(tb.rows)-len(sel)
	// update through a key-keeping project: the columns that are projected
	// away are blanked (known finding update-through-project-blanks-columns)
	if contains(q.ops(), "project") || contains(q.ops(), "remove") {
		for j, c := range tb.cols {
			if _, ok := q.outCol(c.name); ok {
				continue
			}
			for _, i := range sel {
				if tb.rows[i][j] != "" {
					s.known = "update-through-project-blanks-columns"
				}
			}
		}
	}
	// the update iterates an index of the table while it changes it: a row
	// whose index position moves forward and that still satisfies the query is
	// met again (known finding update-revisits-moved-row)
	for _, i := range sel {
		for _, ix := range tb.allIndexes() {
			if indexCmp(tb, ix, s.after[i], tb.rows[i]) > 0 {
				saved := tb.rows
				tb.rows = s.after[i : i+1]
				r, err := d.eval(q)
				tb.rows = saved
				if (err != nil || len(r.rows) > 0) && s.known == "" {
					s.known = "update-revisits-moved-row"
				}
			}
		}
	}
	if violates(tb, s.after) != "" {
		s.wantErr = true
		return
	}
	// transient conflicts: the new key of a row equals the old key of another
	// row that is also updated later or earlier: outcome depends on the order
	for _, i := range sel {
		for j := range tb.rows {
			if j == i {
				continue
			}
			mixed := [][]string{s.after[i], tb.rows[j]}
			if violates(tb, mixed) != "" {
				s.either = true
			}
		}
	}
}

// hasEmptyUnique: tb has an index unique (not containing a key) and a row
// whose unique columns are all empty.
func hasEmptyUnique(tb *tableT) bool {
	for _, u := range tb.uniques {
		hasKey := false
		for _, k := range tb.keys {
			if len(common(k, u)) == len(k) {
				hasKey = true
			}
		}
		if hasKey {
			continue
		}
		for _, r := range tb.rows {
			if allEmpty(tb, r, u) {
				return true
			}
		}
	}
	return false
}

func readTable(d *dbT, tb *tableT, ix []string) (rows [][]string, err *engineErr) {
	p := planT{name: "setup-read", mode: qry.ReadMode, use: "none", frac: 1}
	if ix != nil {
		p = planT{name: "idx", mode: qry.ReadMode, use: "order", cols: ix, frac: 1}
	}
	x, err := setup(d, tb.name, tb.colNames(), p)
	if err != nil {
		return nil, err
	}
	err = catch(func() { rows = x.readAll(core.Next) })
	return rows, err
}

// TestC24: insert, update and delete statements change exactly the selected rows.
func TestC24(t *testing.T) {
	rec := ev.New("C24", "rapid: database of 2-4 generated tables (as C22); 1-3 statements, each in its own update transaction through DoAction: `insert {..} into t`, `insert <query over the other tables> into t`, `update t [where ..]* [extend ..] set c = expr, ..`, `delete <t with where/rename/extend/project>`, and not-updateable forms (summarize, join, union, project without key). Oracle: rows selected by the C22 evaluator, set expressions evaluated on the old row, applied to the model table; duplicate key / unique index / not updateable predicted; compared with the returned count and the table contents read back (unordered and through every index) after commit, or the unchanged table after a failed statement. Non-trivial: statement that changes >= 1 row and leaves >= 1 row untouched; distinct = statement + database.")
	rec.Assumptions = []string{
		"insert sources do not read the target table; update set expressions see the old values of the row",
		"an update whose intermediate states (but not the final state) collide on a key may fail or succeed (iteration order is not specified)",
		"foreign keys are not generated",
	}
	defer rec.Write()

	rt.Check(t, rec, "statements", 1500, 20000, func(t *rapid.T) {
		if gen.Chance(t, "bigsmall", 18) {
			bigSmallCase(t, rec)
			return
		}
		if gen.Chance(t, "moveupdate", 14) {
			moveUpdateCase(t, rec)
			return
		}
		d := genDb(t)
		d.build()
		defer d.release()
		nst := rng(t, "nstmts", 1, 3)
		for si := 0; si < nst; si++ {
			judgeStmt(t, rec, d, d.genStmt(t))
		}
	})
}

// judgeStmt runs one statement and compares count and table contents with the
// model's prediction.
func judgeStmt(t *rapid.T, rec *ev.Rec, d *dbT, s *stmtT) {
	tb := s.table
	if s.skip != "" {
		if strings.Contains(s.skip, errDocumented.Error()) {
			rec.Excluded("documented: \"\" ordered against number/boolean (StrictCompareDb class)")
		} else {
			rec.Label("skipped: " + strings.SplitN(s.skip, ":", 2)[0])
		}
		return
	}
	// known findings of C24 (classes excluded by a predicate on the case)
	known := s.known
	hasWhere := s.q != nil && contains(s.q.ops(), "where")
	if known == "" && (s.kind == "update" || s.kind == "delete") && hasWhere && hasEmptyUnique(tb) {
		known = "unique-index-empty-value"
	}
	if known == "" && s.q != nil && orWithEmptyTerm(s.q) {
		known = "or-with-empty-range"
	}
	if known == "" && s.q != nil && inWithEmpty(s.q) {
		known = "where-in-empty-duplicates"
	}
	if known != "" {
		if e, ok := kf.Known("C24", known); ok {
			rec.Excluded(known)
			rec.Known(e.What)
			return
		}
	}
	before := copyRows(tb.rows)
	desc := func() string {
		return "statement: " + s.text + "\n" + d.describe()
	}
	th := &core.Thread{}
	ut := d.db.NewUpdateTran()
	n := -1
	err := catch(func() { n = qry.DoAction(th, ut, s.text) })
	if err != nil {
		ut.Abort()
		if err.runtime {
			t.Fatalf("C24: statement failed with a runtime error: %v\n%s\n%s", err, desc(), err.stack)
		}
	} else {
		var cerr *engineErr
		cerr = catch(func() { ut.Commit() })
		if cerr != nil {
			t.Fatalf("C24: commit failed: %v\n%s", cerr, desc())
		}
	}
	failed := err != nil
	switch {
	case s.wantErr && !failed:
		t.Fatalf("C24: statement succeeded (count %d) but the model predicts an error (duplicate key / not updateable)\n%s\nmodel result would be:\n%s",
			n, desc(), showRows(tb.colNames(), s.after, 40))
	case !s.wantErr && !s.either && failed:
		t.Fatalf("C24: statement failed: %v\nthe model predicts success, count %d\n%s", err, s.count, desc())
	}
	want := s.after
	if failed {
		want = before
	} else if n != s.count {
		t.Fatalf("C24: statement reported %d rows, model %d\n%s", n, s.count, desc())
	}
	// table contents, unordered and through every index
	reads := append([][]string{nil}, tb.allIndexes()...)
	for _, ix := range reads {
		if ix != nil && len(ix) == 0 {
			continue
		}
		got, rerr := readTable(d, tb, ix)
		if rerr == errImpossible {
			continue
		}
		if rerr != nil {
			t.Fatalf("C24: reading %s by %v after the statement failed: %v\n%s", tb.name, ix, rerr, desc())
		}
		if !sameStrings(canonRows(tb.colNames(), got), canonRows(tb.colNames(), want)) {
			what := "after the statement"
			if failed {
				what = "after the failed statement (" + err.Error() + ") and abort"
			}
			t.Fatalf("C24: table %s read by %v %s differs from the model\n%s\nengine: %d rows (statement returned %d)\n%s\nmodel: %d rows\n%s", tb.name, ix, what, desc(),
				len(got), n, showRows(tb.colNames(), got, 40), len(want), showRows(tb.colNames(), want, 40))
		}
	}
	tb.rows = want
	nt := !failed && s.changed >= 1 && s.untouched >= 1
	rec.Case(nt, s.text+"\n"+d.describe())
	rec.Label("stmt_" + s.kind)
	rec.LabelIf(failed && s.wantErr, "predicted_error_"+s.kind)
	rec.LabelIf(failed, "error: "+errClass(err))
	rec.LabelIf(s.either, "order_dependent_outcome")
	rec.LabelIf(!failed && s.changed == 0, "no_row_changed")
	rec.LabelIf(!failed && s.changed > 0, "changed_rows")
	if nt && rec.WantSample(s.kind) {
		rec.Sample(s.kind, map[string]any{"statement": s.text, "count": n,
			"database_before": strings.Split(strings.TrimSpace(dbDescribeWith(d, tb, before)), "\n")})
	}
}

// bigSmallCase: `insert <join of a 60-300 row table and a 1-5 row table, in
// either order> into dst`, dst having the columns of both sides. With such
// sizes the optimizer reads the small table first, so for `tbig join tsmall`
// the optimised query delivers its records in the opposite order to the parsed
// one (a stale header would store the columns swapped).
func bigSmallCase(t *rapid.T, rec *ev.Rec) {
	pk := func(i int) string { return core.Pack(core.IntVal(i).(core.Packable)) }
	n := rng(t, "bs_nbig", 60, 300)
	big := &tableT{name: "tbig", cols: []colT{{name: "k", typ: tNum}, {name: "n1", typ: tNum}}, keys: [][]string{{"k"}}}
	withS1 := gen.Chance(t, "bs_s1", 40)
	if withS1 {
		big.cols = append(big.cols, colT{name: "s1", typ: tStr})
	}
	if gen.Chance(t, "bs_bigidx", 40) {
		big.indexes = [][]string{{"n1"}}
	}
	mul := rng(t, "bs_mul", 1, 9)
	for i := 1; i <= n; i++ {
		row := []string{pk(i), pk(1000 + (i*mul)%37)}
		if withS1 {
			row = append(row, strLits[i%len(strLits)].packed)
		}
		big.rows = append(big.rows, row)
	}
	small := &tableT{name: "tsmall", cols: []colT{{name: "k", typ: tNum}, {name: "n2", typ: tNum}}, keys: [][]string{{"k"}}}
	if gen.Chance(t, "bs_smallkey", 30) {
		small.keys = [][]string{{"k", "n2"}}
	}
	used := map[int]bool{}
	var smallKs []int
	for i := 0; i < rng(t, "bs_nsmall", 1, 5); i++ {
		k := rng(t, "bs_smallk", 1, n+3)
		if used[k] {
			continue
		}
		used[k] = true
		smallKs = append(smallKs, k)
		small.rows = append(small.rows, []string{pk(k), pickOf(t, "bs_n2", numLits).packed})
	}
	dst := &tableT{name: "tdst", cols: []colT{{name: "n2", typ: tNum}, {name: "k", typ: tNum}, {name: "n1", typ: tNum}}, keys: [][]string{{"k"}}}
	if withS1 && gen.Chance(t, "bs_dsts1", 70) {
		dst.cols = append(dst.cols, colT{name: "s1", typ: tStr})
	}
	if gen.Chance(t, "bs_dstidx", 40) {
		dst.indexes = [][]string{{"n2", "n1"}}
	}
	d := &dbT{tables: []*tableT{big, small, dst}}
	g := &qgen{t: t, db: d}
	var l, r *qnode = tableNode(big), tableNode(small)
	if gen.Chance(t, "bs_wbig", 25) {
		l = g.where(l)
	}
	if gen.Chance(t, "bs_wsmall", 20) {
		r = g.where(r)
	}
	var q *qnode
	shape := gen.Weighted(t, "bs_shape", []int{5, 3, 1, 1, 1})
	switch shape {
	case 0:
		q = g.join("join", l, r)
	case 1:
		q = g.join("join", r, l)
	case 2:
		q = g.join("leftjoin", r, l)
	case 3:
		q = g.join("leftjoin", l, r)
	default:
		dst.cols = append(dst.cols, colT{name: "k2", typ: tNum})
		rn := &qnode{op: "rename", src: r, from: []string{"k"}, to: []string{"k2"}, out: append([]colT(nil), r.out...)}
		for i := range rn.out {
			if rn.out[i].name == "k" {
				rn.out[i].name = "k2"
			}
		}
		lw := &qnode{op: "where", src: tableNode(big), out: big.cols,
			expr: bin("<=", colExpr(big.cols[0]), constExpr(mkLit(fmt.Sprint(rng(t, "bs_timesmax", 1, 40)), tNum)), tBool)}
		if gen.Chance(t, "bs_timesorder", 50) {
			q = g.times(lw, rn)
		} else {
			q = g.times(rn, lw)
		}
	}
	// rows already in the destination (sometimes colliding with the source)
	for i := 0; i < rng(t, "bs_ndst", 0, 2); i++ {
		k := n + 10 + i
		if len(smallKs) > 0 && gen.Chance(t, "bs_collide", 15) {
			k = smallKs[0]
		}
		row := make([]string, len(dst.cols))
		row[dst.colIndex("k")] = pk(k)
		row[dst.colIndex("n1")] = pickOf(t, "bs_dn1", numLits).packed
		if violates(dst, append(copyRows(dst.rows), row)) == "" {
			dst.rows = append(dst.rows, row)
		}
	}
	s := &stmtT{kind: "insert-query", table: dst, q: q, text: "insert " + q.lhs() + " into " + dst.name}
	src, err := d.eval(q)
	if err != nil {
		rec.Label("skipped: bigsmall " + strings.SplitN(err.Error(), ":", 2)[0])
		return
	}
	s.after = copyRows(dst.rows)
	for _, row := range src.rows {
		nr := make([]string, len(dst.cols))
		for i, c := range dst.cols {
			if j := src.idx(c.name); j >= 0 {
				nr[i] = row[j]
			}
		}
		s.after = append(s.after, nr)
	}
	s.count, s.changed, s.untouched = len(src.rows), len(src.rows), len(dst.rows)
	s.wantErr = violates(dst, s.after) != ""
	d.build()
	defer d.release()
	// does the optimised source read the tables in the other order?
	if x, serr := setup(d, q.String(), src.cols, planT{name: "setup-read", mode: qry.ReadMode, use: "none", frac: 1}); serr == nil {
		text := q.String()
		if (strings.Index(text, "tbig") < strings.Index(text, "tsmall")) != (strings.Index(x.strat, "tbig") < strings.Index(x.strat, "tsmall")) {
			rec.Label("insert_source_operands_reversed_by_optimizer")
		}
		x.close()
	}
	rec.Label("insert_source_big_small_" + []string{"join", "join", "leftjoin", "leftjoin", "times"}[shape])
	judgeStmt(t, rec, d, s)
}

var readIndexRe = regexp.MustCompile(`tu\^\(([a-z0-9_,]*)\)`)

// moveUpdateCase: updates that assign a column of the index the update reads
// by. Table tu (10-40 rows) has key(k) and an index / unique index / second key
// that starts with the key and continues with a non-key column (also plain
// indexes on that column); the where has ranges on the trailing column and on
// the key, the set moves rows forward or backward inside or out of the range.
// Count and table are compared exactly.
func moveUpdateCase(t *rapid.T, rec *ev.Rec) {
	pk := func(i int) string { return core.Pack(core.IntVal(i).(core.Packable)) }
	tu := &tableT{name: "tu", cols: []colT{{name: "k", typ: tNum}, {name: "n1", typ: tNum}, {name: "s1", typ: tStr}, {name: "n2", typ: tNum}},
		keys: [][]string{{"k"}}}
	onStr := gen.Chance(t, "mu_str", 25)
	trail := "n1"
	if onStr {
		trail = "s1"
	}
	switch gen.Weighted(t, "mu_index", []int{5, 2, 2, 1}) {
	case 0:
		tu.indexes = [][]string{{"k", trail}}
	case 1:
		tu.uniques = [][]string{{"k", trail}}
	case 2:
		tu.keys = append(tu.keys, []string{"k", trail})
	default:
		tu.indexes = [][]string{{"k", trail, "n2"}}
	}
	if gen.Chance(t, "mu_plainidx", 35) {
		tu.indexes = append(tu.indexes, []string{trail})
	}
	strs := []lit{strLits[1], strLits[2], strLits[3], strLits[5], mkLit(`"c"`, tStr), mkLit(`"d"`, tStr)}
	n := rng(t, "mu_nrows", 10, 40)
	for i := 1; i <= n; i++ {
		tu.rows = append(tu.rows, []string{pk(i), pk(rng(t, "mu_a", 0, 9)), pickOf(t, "mu_s", strs).packed, pk(i % 3)})
	}
	d := &dbT{tables: []*tableT{tu}}
	d.build()
	defer d.release()
	num := func(i int) *exprT { return constExpr(mkLit(fmt.Sprint(i), tNum)) }
	kc, ac, sc := colExpr(tu.cols[0]), colExpr(tu.cols[1]), colExpr(tu.cols[2])
	for si := 0; si < rng(t, "mu_nstmts", 1, 2); si++ {
		var terms []*exprT
		if gen.Chance(t, "mu_kterm", 70) {
			terms = append(terms, bin(pickOf(t, "mu_kop", []string{">", ">=", "<="}), kc, num(rng(t, "mu_kval", 0, n)), tBool))
		}
		var set *exprT
		var setText string
		if onStr {
			lo, hi := pickOf(t, "mu_slo", strs), pickOf(t, "mu_shi", strs)
			if lo.packed > hi.packed {
				lo, hi = hi, lo
			}
			terms = append(terms, bin(">=", sc, constExpr(lo), tBool), bin(pickOf(t, "mu_shiop", []string{"<", "<="}), sc, constExpr(hi), tBool))
			switch gen.Uniform(t, "mu_sset", 3) {
			case 0:
				set = bin("$", sc, constExpr(mkLit(`"x"`, tStr)), tStr)
			case 1:
				set = constExpr(pickOf(t, "mu_sconst", strs))
			default:
				set = bin("$", constExpr(mkLit(`"a"`, tStr)), sc, tStr)
			}
		} else {
			lo := rng(t, "mu_lo", 0, 8)
			hi := rng(t, "mu_hi", lo, 10)
			terms = append(terms, bin(">=", ac, num(lo), tBool), bin(pickOf(t, "mu_hiop", []string{"<", "<="}), ac, num(hi), tBool))
			switch gen.Uniform(t, "mu_set", 5) {
			case 0, 1:
				set = bin("+", ac, num(rng(t, "mu_inc", 1, 2)), tNum)
			case 2:
				set = bin("-", ac, num(1), tNum)
			case 3:
				set = num(rng(t, "mu_const", lo, max(lo, hi)))
			default:
				set = bin("*", ac, num(2), tNum)
			}
		}
		setText = trail + " = " + set.String()
		var w *exprT = terms[0]
		if len(terms) > 1 {
			w = &exprT{op: "and", typ: tBool, args: terms}
		}
		q := &qnode{op: "where", src: tableNode(tu), expr: w, out: tu.cols}
		s := &stmtT{kind: "update", table: tu, q: q, text: "update " + q.String() + " set " + setText}
		d.predictUpdate(s, q, []string{trail}, []*exprT{set})
		// which index does the update read by?
		if err := catch(func() {
			ut := d.db.NewUpdateTran()
			defer ut.Abort()
			sq := qry.SetupKey(qry.ParseQuery(q.String(), ut, nil), qry.UpdateMode, ut)
			if m := readIndexRe.FindStringSubmatch(qry.String(sq)); m != nil {
				rec.Label("update_reads_by_index(" + m[1] + ")")
				if contains(strings.Split(m[1], ","), trail) {
					rec.Label("update_read_index_contains_assigned_column")
					moved := false
					for i := range tu.rows {
						if s.after != nil && i < len(s.after) && s.after[i][tu.colIndex(trail)] > tu.rows[i][tu.colIndex(trail)] {
							r, err := d.evalOn(snapT{"tu": s.after[i : i+1]}, q)
							if err == nil && len(r.rows) > 0 {
								moved = true
							}
						}
					}
					rec.LabelIf(moved, "update_moves_row_ahead_in_read_index_and_still_matches")
				}
			}
		}); err != nil {
			t.Fatalf("C24: SetupKey failed: %v\nstatement: %s", err, s.text)
		}
		rec.Label("move_update_case")
		judgeStmt(t, rec, d, s)
	}
}

func dbDescribeWith(d *dbT, tb *tableT, rows [][]string) string {
	saved := tb.rows
	tb.rows = rows
	defer func() { tb.rows = saved }()
	return d.describe()
}

func errClass(err *engineErr) string {
	if err == nil {
		return ""
	}
	s := err.Error()
	for _, p := range []string{"duplicate key", "not updateable", "too many writes", "can't"} {
		if strings.Contains(s, p) {
			return p
		}
	}
	if len(s) > 40 {
		s = s[:40]
	}
	return s
}

var _ = errors.New
var _ = fmt.Sprint
