package query

// case.go: one generated case (database + request + model result) shared
// by C22 and C23, and failure reporting.

import (
	"errors"
	"fmt"
	"regexp"
	"strings"

	"pgregory.net/rapid"
	"verifharness/internal/ev"
	"verifharness/internal/kf"
)

type caseT struct {
	borrowed  bool // known classes are borrowed from another property: label only
	extraSels bool // the last Lookup had sels beyond the required columns
	d     *dbT
	tq    *topQ
	text  string
	model *rel
	pi    parsedT
	ops   []string
}

// fatalf is t.Fatalf; a separate type so helpers can fail the rapid case.
type failer interface {
	Fatalf(format string, args ...any)
}

// newCase draws a database, views and a request, evaluates the model and
// builds the real database. It returns nil for cases that are excluded
// (counted in rec): model result too large, documented "" ordering.
func newCase(t *rapid.T, rec *ev.Rec, maxDepth int, prop string) *caseT {
	d := genDb(t)
	genViews(t, d)
	g := &qgen{t: t, db: d, diffOK: prop == "C22"}
	tq := g.genTop(maxDepth)
	return finishCase(t, rec, d, tq, prop)
}

// finishCase: known-class exclusion, model evaluation, real database, parse.
func finishCase(t *rapid.T, rec *ev.Rec, d *dbT, tq *topQ, prop string) *caseT {
	c := &caseT{d: d, tq: tq, text: tq.String(), ops: tq.q.ops()}
	if c.knownCase(rec, prop) {
		return nil
	}
	model, err := d.eval(tq.q)
	if err != nil {
		if errors.Is(err, errDocumented) {
			rec.Excluded("documented: \"\" ordered against number/boolean (StrictCompareDb class)")
			return nil
		}
		var tb tooBig
		if errors.As(err, &tb) {
			rec.Label("skipped_model_too_large")
			return nil
		}
		// the typed grammar only builds total expressions: anything else
		// is a defect of the harness
		t.Fatalf("HARNESS: model evaluation failed: %v\nquery: %s\n%s", err, c.text, d.describe())
	}
	c.model = model
	d.build()
	pi, perr := parseInfo(d, c.text)
	if perr != nil {
		d.release()
		t.Fatalf("HARNESS: generated query does not parse: %v\nquery: %s\n%s", perr, c.text, d.describe())
	}
	c.pi = pi
	return c
}

func (c *caseT) hasOp(names ...string) bool {
	for _, o := range c.ops {
		for _, n := range names {
			if o == n {
				return true
			}
		}
	}
	return false
}

func (c *caseT) labels(rec *ev.Rec) {
	rec.LabelIf(c.hasOp("join"), "q_join")
	rec.LabelIf(c.hasOp("leftjoin"), "q_leftjoin")
	rec.LabelIf(c.hasOp("semijoin"), "q_semijoin")
	rec.LabelIf(c.hasOp("times"), "q_times")
	rec.LabelIf(c.hasOp("summarize"), "q_summarize")
	rec.LabelIf(strings.Contains(c.text, " remove ") && c.tq.q.hasSilent(), "q_union_or_minus_of_different_column_sets")
	rec.LabelIf(c.hasOp("union"), "q_union")
	rec.LabelIf(c.hasOp("intersect"), "q_intersect")
	rec.LabelIf(c.hasOp("minus"), "q_minus")
	rec.LabelIf(c.hasOp("where"), "q_where")
	rec.LabelIf(c.hasOp("project", "remove"), "q_project_remove")
	rec.LabelIf(c.hasOp("rename"), "q_rename")
	rec.LabelIf(c.hasOp("extend"), "q_extend")
	rec.LabelIf(c.hasOp("view"), "q_view")
	rec.LabelIf(len(c.tq.sort) > 0, "q_sort")
	rec.LabelIf(len(c.model.rows) > 0, "result_nonempty")
	rec.Label(fmt.Sprint("q_depth_", c.tq.q.depth()))
	n := len(c.ops)
	if n > 6 {
		n = 6
	}
	rec.Label(fmt.Sprint("q_nops_", n))
}

// bigOp: the query contains a join-like, union-like or summarize operator.
func (c *caseT) bigOp() bool {
	return c.hasOp("join", "leftjoin", "semijoin", "times", "union", "intersect", "minus", "summarize")
}

func (c *caseT) describe() string {
	return "query: " + c.text + "\n" + c.d.describe()
}

func sameStrings(a, b []string) bool {
	if len(a) != len(b) {
		return false
	}
	for i := range a {
		if a[i] != b[i] {
			return false
		}
	}
	return true
}

// mismatch renders a failure message with the model rows, the engine rows
// and the engine's own Simple() as tie-breaker.
func (c *caseT) mismatch(what string, x *execT, got [][]string) string {
	var sb strings.Builder
	sb.WriteString(what + "\n")
	sb.WriteString(c.describe())
	sb.WriteString("plan: " + x.plan.String() + "\n")
	sb.WriteString("strategy: " + x.strat + "\n")
	sb.WriteString(fmt.Sprintf("model (query as written): %d rows\n%s\n", len(c.model.rows), showRows(c.model.cols, c.model.rows, 40)))
	sb.WriteString(fmt.Sprintf("engine: %d rows\n%s\n", len(got), showRows(x.cols, got, 40)))
	sb.WriteString("third opinion, engine Simple() on the parsed query: " + simpleRows(c.d, c.text, c.model.cols) + "\n")
	return sb.String()
}

var joinLookupSelectRe = regexp.MustCompile(`(?s)\)\.Select\(.*(Join|LeftJoin)\)\.Lookup`)
var tableLookupNoSelsRe = regexp.MustCompile(`\(\*Table\)\.Lookup\([^\n]*\{0x0, 0x0, 0x0\}\)`)

var disjointLookupRe = regexp.MustCompile(`union-disjoint\([a-z0-9_]*\)( |\)|$)`)

// usesEmptyKeyTable: the query reads a table with the empty key.
func (c *caseT) usesEmptyKeyTable() bool {
	for name := range c.tq.q.tables() {
		if hasSet(c.d.table(name).keys, []string{}) {
			return true
		}
	}
	return false
}

// usesUniqueIndex: the query reads a table that has an "index unique" whose
// columns do not contain a key.
func (c *caseT) usesUniqueIndex() bool {
	for name := range c.tq.q.tables() {
		tb := c.d.table(name)
		for _, u := range tb.uniques {
			hasKey := false
			for _, k := range tb.keys {
				if len(common(k, u)) == len(k) {
					hasKey = true
				}
			}
			if !hasKey {
				return true
			}
		}
	}
	return false
}

// knownCrash classifies an engine panic: true if it is a listed known
// finding (then the case is excluded and counted).
func (c *caseT) knownCrash(rec *ev.Rec, prop string, err *engineErr, strat string) bool {
	key := ""
	switch {
	case strings.Contains(err.stack, "Union).getLookup") && strings.Contains(err.stack, "Compatible).source2Has") &&
		disjointLookupRe.MatchString(strat):
		key = "union-disjoint-lookup-probe"
	case (err.Error() == "ASSERT FAILED" && strings.Contains(err.stack, "query.selEnd") ||
		strings.HasPrefix(err.Error(), "Sels.Get can't find") && strings.Contains(err.stack, "query.selKeys")) &&
		strings.Contains(err.stack, "Union).Select(") && strings.Contains(strat, "union-merge"):
		key = "union-select-emptykey-source"
	case strings.HasPrefix(err.Error(), "rename: ") && strat == "" && c.hasOp("rename") && strings.Contains(err.stack, ").Transform"):
		key = "rename-chain-transform"
	case err.Error() == "cannot do math on String literal" && strat == "" && strings.Contains(err.stack, "query.replaceExpr"):
		key = "transform-folds-empty-literal-math"
	case (strings.HasPrefix(err.Error(), "Sels.Get can't find") || err.Error() == "ASSERT FAILED" || err.Error() == "selOrg not full") &&
		c.extraSels && joinLookupSelectRe.MatchString(err.stack):
		key = "join-lookup-fallback-extra-sels"
	case (strings.HasPrefix(err.Error(), "Sels.Get can't find") || err.Error() == "selOrg not full") &&
		strings.Contains(err.stack, "Times).Lookup") && tableLookupNoSelsRe.MatchString(err.stack):
		key = "times-lookup-empty-sels"
	case err.Error() == "selOrg not full" && c.usesUniqueIndex():
		key = "lookup-unique-index-empty"
	case err.Error() == "ASSERT FAILED" && strings.Contains(err.stack, "ProjectNone).hasRow"):
		key = "projectnone-nil-thread"
	case c.hasOp("semijoin") && strings.Contains(err.stack, "SemiJoin).Select") &&
		(err.Error() == "ASSERT FAILED" && strings.Contains(err.stack, "query.selEnd") ||
			strings.HasPrefix(err.Error(), "Sels.Get can't find") && strings.Contains(err.stack, "query.selKeys")):
		key = "semijoin-rev-fastsingle-select"
	}
	if key == "" {
		return false
	}
	if e, ok := kf.Known(prop, key); ok {
		c.recordKnown(rec, key, e.What)
		return true
	}
	return false
}

// recordKnown counts an excluded case. A check that borrows the known
// classes of another property (C02 borrows C22's) only labels the skip.
func (c *caseT) recordKnown(rec *ev.Rec, key, what string) {
	if c.borrowed {
		rec.Label("skipped_class_known_under_C22: " + key)
		return
	}
	rec.Excluded(key)
	rec.Known(what)
}

// emptyUniqueRow: the query reads a table with an "index unique" (not
// containing a key) that has a row whose unique columns are all empty
// (known finding unique-index-empty-value).
func (c *caseT) emptyUniqueRow() bool {
	for name := range c.tq.q.tables() {
		tb := c.d.table(name)
		for _, u := range tb.uniques {
			hasKey := false
			for _, k := range tb.keys {
				if len(common(k, u)) == len(k) {
					hasKey = true
				}
			}
			if hasKey {
				continue
			}
			for _, r := range tb.rows {
				if allEmpty(tb, r, u) {
					return true
				}
			}
		}
	}
	return false
}

// emptyRangeTerm: e is `col < ""` or a conjunction holding a lower and an
// upper bound on one column that no value satisfies.
func emptyRangeTerm(e *exprT) bool {
	isCmp := func(x *exprT, ops ...string) bool {
		return contains(ops, x.op) && len(x.args) == 2 && x.args[0].op == "col" && x.args[1].op == "const"
	}
	if isCmp(e, "<") && e.args[1].lit.packed == "" {
		return true
	}
	// the folder rewrites not (col >= "") to col < ""
	if e.op == "not" && isCmp(e.args[0], ">=") && e.args[0].args[1].lit.packed == "" {
		return true
	}
	if e.op != "and" {
		return false
	}
	for _, a := range e.args {
		if isCmp(a, "<") && a.args[1].lit.packed == "" {
			return true
		}
		if !isCmp(a, ">", ">=", "is") {
			continue
		}
		for _, b := range e.args {
			if !isCmp(b, "<", "<=", "is") || b.args[0].col != a.args[0].col || a == b {
				continue
			}
			lo, hi := a.args[1].lit.packed, b.args[1].lit.packed
			if lo > hi || (lo == hi && (a.op == ">" || b.op == "<")) {
				return true
			}
		}
	}
	return false
}

// orWithEmptyTerm: some where of the query has an `or` with an alternative
// that is an empty range (known finding or-with-empty-range).
func orWithEmptyTerm(q *qnode) bool {
	found := false
	var inExpr func(e *exprT)
	inExpr = func(e *exprT) {
		if e.op == "or" {
			for _, a := range e.args {
				if emptyRangeTerm(a) {
					found = true
				}
			}
		}
		for _, a := range e.args {
			inExpr(a)
		}
	}
	var rec func(n *qnode)
	rec = func(n *qnode) {
		n.walk(func(m *qnode) {
			if m.op == "where" {
				inExpr(m.expr)
			}
			if m.op == "view" {
				rec(m.viewOf)
			}
		})
	}
	rec(q)
	return found
}

// knownCase: the generated case belongs to a listed known finding of prop
// (then it is excluded and counted).
func (c *caseT) knownCase(rec *ev.Rec, prop string) bool {
	check := func(key string, match bool) bool {
		if !match {
			return false
		}
		if e, ok := kf.Known(prop, key); ok {
			c.recordKnown(rec, key, e.What)
			return true
		}
		return false
	}
	return check("where-over-summarize-shadow", shadowSumUnderWhere(c.tq.q, nil, false)) ||
		check("summarize-shadow-requirement", hasShadowSummarize(c.tq.q)) ||
		check("summarize-wholerow-inside", wholeRowUnderWhere(c.tq.q, nil, false)) ||
		check("summarize-wholerow-after-project", wholeRowFlips(c.tq.q, false)) ||
		check("unique-index-empty-value", c.emptyUniqueRow()) ||
		check("or-with-empty-range", orWithEmptyTerm(c.tq.q)) ||
		check("where-in-empty-duplicates", inWithEmpty(c.tq.q)) ||
		check("extend-reuses-renamed-name", extendReusesRenamed(c.tq.q))
}

// inWithEmpty: some where of the query has an `in` with at least two
// different values one of which is "" (or an `or` of equalities on one column
// including ""): known finding where-in-empty-duplicates.
func inWithEmpty(q *qnode) bool {
	found := false
	var inExpr func(e *exprT)
	inExpr = func(e *exprT) {
		if e.op == "in" {
			vals := map[string]bool{}
			for _, a := range e.args[1:] {
				vals[a.lit.packed] = true
			}
			if vals[""] && len(vals) > 1 {
				found = true
			}
		}
		if e.op == "or" {
			vals := map[string]map[string]bool{}
			for _, a := range e.args {
				if a.op == "is" && a.args[0].op == "col" && a.args[1].op == "const" {
					if vals[a.args[0].col] == nil {
						vals[a.args[0].col] = map[string]bool{}
					}
					vals[a.args[0].col][a.args[1].lit.packed] = true
				}
				if a.op == "in" && a.args[0].op == "col" {
					if vals[a.args[0].col] == nil {
						vals[a.args[0].col] = map[string]bool{}
					}
					for _, b := range a.args[1:] {
						vals[a.args[0].col][b.lit.packed] = true
					}
				}
			}
			for _, v := range vals {
				if v[""] && len(v) > 1 {
					found = true
				}
			}
			// `col is "" or <any other term on col>`
			for _, a := range e.args {
				if len(a.args) > 0 && a.args[0].op == "col" && vals[a.args[0].col][""] &&
					!(a.op == "is" || a.op == "in") {
					found = true
				}
			}
		}
		for _, a := range e.args {
			inExpr(a)
		}
	}
	var rec func(n *qnode)
	rec = func(n *qnode) {
		n.walk(func(m *qnode) {
			if m.op == "where" {
				inExpr(m.expr)
			}
			if m.op == "view" {
				rec(m.viewOf)
			}
		})
	}
	rec(q)
	return found
}

// extendReusesRenamed: an extend defines a column whose name a rename below
// it renamed away (known finding extend-reuses-renamed-name).
func extendReusesRenamed(q *qnode) bool {
	found := false
	var rec func(n *qnode)
	rec = func(n *qnode) {
		n.walk(func(m *qnode) {
			if m.op == "view" {
				rec(m.viewOf)
			}
			if m.op != "extend" {
				return
			}
			var below func(x *qnode)
			below = func(x *qnode) {
				if x == nil {
					return
				}
				if x.op == "view" {
					below(x.viewOf)
					return
				}
				if x.op == "rename" {
					for _, f := range x.from {
						if contains(m.ecols, f) {
							found = true
						}
					}
				}
				below(x.src)
				below(x.src2)
			}
			below(m.src)
		})
	}
	rec(q)
	return found
}

// multiFixedLeading: some where restricts a column to two or more values
// (`in` / `or` of equalities) of which at least two are stored in a table of
// the query that has a composite index led by that column.
func (c *caseT) multiFixedLeading() bool {
	found := false
	check := func(col string, vals map[string]bool) {
		if len(vals) < 2 {
			return
		}
		for name := range c.tq.q.tables() {
			tb := c.d.table(name)
			j := tb.colIndex(col)
			if j < 0 {
				continue
			}
			led := false
			for _, ix := range tb.allIndexes() {
				if len(ix) > 1 && ix[0] == col {
					led = true
				}
			}
			if !led {
				continue
			}
			n := 0
			for v := range vals {
				for _, r := range tb.rows {
					if r[j] == v {
						n++
						break
					}
				}
			}
			if n >= 2 {
				found = true
			}
		}
	}
	var inExpr func(e *exprT)
	inExpr = func(e *exprT) {
		if e.op == "in" && e.args[0].op == "col" {
			vals := map[string]bool{}
			for _, a := range e.args[1:] {
				vals[a.lit.packed] = true
			}
			check(e.args[0].col, vals)
		}
		if e.op == "or" {
			vals := map[string]map[string]bool{}
			for _, a := range e.args {
				if a.op == "is" && a.args[0].op == "col" && a.args[1].op == "const" {
					if vals[a.args[0].col] == nil {
						vals[a.args[0].col] = map[string]bool{}
					}
					vals[a.args[0].col][a.args[1].lit.packed] = true
				}
			}
			for col, v := range vals {
				check(col, v)
			}
		}
		for _, a := range e.args {
			inExpr(a)
		}
	}
	var rec func(n *qnode)
	rec = func(n *qnode) {
		n.walk(func(m *qnode) {
			if m.op == "where" {
				inExpr(m.expr)
			}
			if m.op == "view" {
				rec(m.viewOf)
			}
		})
	}
	rec(c.tq.q)
	return found
}
