package query

// engine.go: running the real query engine under a plan (requirement +
// test switches), reading rows, and describing strategies.

import (
	"fmt"
	"math/rand/v2"
	"regexp"
	"runtime"
	"sort"
	"strings"

	"github.com/apmckinlay/gsuneido/core"
	"github.com/apmckinlay/gsuneido/db19"
	qry "github.com/apmckinlay/gsuneido/dbms/query"
	"pgregory.net/rapid"
	"verifharness/internal/gen"
)

func init() {
	// sortForTest makes summarize-map output and "list" values deterministic
	// (a list of more than 3 values is otherwise in Go map order).
	qry.VerifSetSwitches(qry.VerifSwitches{SortForTest: true})
}

type planT struct {
	name    string   // setup-read setup-update setup-cursor idx opt
	mode    qry.Mode // ReadMode CursorMode UpdateMode
	use     string   // none order group unique
	cols    []string
	random  bool
	seed    uint64
	ticost  int
	joinrev int
	frac    float32
	nseeks  int32
}

func (p planT) String() string {
	s := fmt.Sprintf("%s %v %s(%s)", p.name, p.mode, p.use, strings.Join(p.cols, ","))
	if p.random {
		s += fmt.Sprintf(" randomBest(seed %d) ticostAdj=%d joinRev=%d", p.seed, p.ticost, p.joinrev)
	}
	return s
}

// engineErr is a panic raised by the engine.
type engineErr struct {
	val     any
	runtime bool
	stack   string
}

func (e *engineErr) Error() string {
	return fmt.Sprint(e.val)
}

func catch(f func()) (err *engineErr) {
	defer func() {
		if e := recover(); e != nil {
			// rapid uses panics for t.Fatalf: let them through
			if isRapidPanic(e) {
				panic(e)
			}
			_, isrt := e.(runtime.Error)
			buf := make([]byte, 16384)
			buf = buf[:runtime.Stack(buf, false)]
			err = &engineErr{val: e, runtime: isrt, stack: string(buf)}
		}
	}()
	f()
	return nil
}

func isRapidPanic(e any) bool {
	t := fmt.Sprintf("%T", e)
	return strings.HasPrefix(t, "rapid.") || strings.HasPrefix(t, "*rapid.")
}

// execT is a query set up for execution.
type execT struct {
	d     *dbT
	plan  planT
	q     qry.Query
	hdr   *core.Header
	th    *core.Thread
	cols  []string // model column order
	strat string
	ut    *db19.UpdateTran
}

func (x *execT) close() {
	if x.ut != nil {
		x.ut.Abort()
		x.ut = nil
	}
}

func (x *execT) vals(row core.Row) []string {
	r := make([]string, len(x.cols))
	for i, c := range x.cols {
		r[i] = row.GetRawVal(x.hdr, c, x.th, nil)
	}
	return r
}

func (x *execT) get(dir core.Dir) []string {
	row := x.q.Get(x.th, dir)
	if row == nil {
		return nil
	}
	return x.vals(row)
}

func (x *execT) readAll(dir core.Dir) [][]string {
	x.q.Rewind()
	return x.readRest(dir)
}

func (x *execT) readRest(dir core.Dir) [][]string {
	var rows [][]string
	for {
		r := x.get(dir)
		if r == nil {
			return rows
		}
		rows = append(rows, r)
		if len(rows) > 4*maxModelRows+100 {
			panic("engine returns more than " + fmt.Sprint(len(rows)) + " rows")
		}
	}
}

var errImpossible = &engineErr{val: "impossible"}

func mkReq(p planT) qry.Require {
	switch p.use {
	case "order":
		return qry.OrderReq(p.cols, 1)
	case "group":
		return qry.GroupReq(p.cols, p.frac, p.nseeks)
	case "unique":
		return qry.UniqueReq(p.cols, p.nseeks)
	}
	return qry.NoneReq(1)
}

// setup parses text and prepares it under plan p. It returns errImpossible
// if the optimizer finds no strategy for the requirement.
func setup(d *dbT, text string, cols []string, p planT) (x *execT, err *engineErr) {
	return setupTran(d, text, cols, p, nil)
}

// setupTran is setup under a transaction supplied by the caller (which
// then owns it); with tran == nil a transaction is created.
func setupTran(d *dbT, text string, cols []string, p planT, tran qry.QueryTran) (x *execT, err *engineErr) {
	x = &execT{d: d, plan: p, th: &core.Thread{}, cols: cols}
	if tran == nil {
		if p.mode == qry.UpdateMode {
			x.ut = d.db.NewUpdateTran()
			tran = x.ut
		} else {
			tran = d.db.NewReadTran()
		}
	}
	err = catch(func() {
		sw := qry.VerifSwitches{SortForTest: true}
		if p.random {
			sw.RandomBest = rand.New(rand.NewPCG(p.seed, 0x9e3779b97f4a7c15))
			sw.TicostAdj = p.ticost
			sw.JoinRev = p.joinrev
		}
		old := qry.VerifSetSwitches(sw)
		defer qry.VerifSetSwitches(old)
		q := qry.ParseQuery(text, tran, nil)
		switch p.name {
		case "setup-read", "setup-update", "setup-cursor":
			q, _, _ = qry.Setup(q, p.mode, tran)
		default:
			req := mkReq(p)
			q = q.Transform()
			fix, vr := qry.Optimize(q, p.mode, req)
			if fix+vr >= qry.VerifImpossible {
				panic(errImpossible)
			}
			q = qry.SetApproach(q, req, tran)
		}
		if p.mode == qry.CursorMode {
			q.SetTran(tran)
		}
		x.q = q
		x.hdr = q.Header()
		x.strat = qry.String(q)
	})
	if err != nil {
		x.close()
		if err.val == any(errImpossible) {
			return nil, errImpossible
		}
		if s, ok := err.val.(string); ok && strings.HasPrefix(s, "invalid query") {
			return nil, errImpossible
		}
		return nil, err
	}
	return x, nil
}

// parsed returns facts about the query as parsed (before Transform).
type parsedT struct {
	cols    []string
	indexes [][]string
	keys    [][]string
	sorted  bool
}

func parseInfo(d *dbT, text string) (pi parsedT, err *engineErr) {
	err = catch(func() {
		rt := d.db.NewReadTran()
		q := qry.ParseQuery(text, rt, nil)
		pi.cols = append([]string(nil), q.Columns()...)
		pi.keys = q.Keys()
		if q.Order() != nil {
			pi.sorted = true // Sort.Indexes() is not callable
			return
		}
		pi.indexes = q.Indexes()
	})
	return
}

// simpleRows runs the engine's own Simple() on the freshly parsed query
// (third opinion for failure messages only).
func simpleRows(d *dbT, text string, cols []string) string {
	var out string
	err := catch(func() {
		rt := d.db.NewReadTran()
		q := qry.ParseQuery(text, rt, nil)
		th := &core.Thread{}
		rows := q.Simple(th)
		hdr := q.Header()
		var rr [][]string
		for _, row := range rows {
			r := make([]string, len(cols))
			for i, c := range cols {
				r[i] = row.GetRawVal(hdr, c, th, nil)
			}
			rr = append(rr, r)
		}
		out = fmt.Sprintf("%d rows\n%s", len(rr), showRows(cols, rr, 40))
	})
	if err != nil {
		return "Simple() failed: " + err.Error()
	}
	return out
}

func keyIndexes(pi parsedT) [][]string {
	var r [][]string
	for _, ix := range pi.indexes {
		for _, k := range pi.keys {
			if sameSet(ix, k) {
				r = append(r, ix)
				break
			}
		}
	}
	return r
}

func isEmptyKey(ix [][]string) bool {
	return len(ix) == 1 && len(ix[0]) == 0
}

// drawPlan draws a requirement that is legal for the parsed query, the way
// the package's own fuzzQuery chooses them: order = prefix of an index,
// group = an index, unique = an index that is a key (or all columns) plus
// optional extra columns.
func drawPlan(t *rapid.T, pi parsedT, random bool) planT {
	p := planT{name: "opt", mode: qry.ReadMode, use: "none", frac: 1}
	if rng(t, "updmode", 0, 5) == 0 {
		p.mode = qry.UpdateMode
	}
	if random {
		p.random = true
		p.seed = rapid.Uint64().Draw(t, "rbseed")
		p.ticost = pickOf(t, "ticost", []int{0, 0, 9999999})
		p.joinrev = pickOf(t, "joinrev", []int{0, 0, int(qry.VerifImpossible)})
	}
	if pi.sorted || len(pi.indexes) == 0 || isEmptyKey(pi.indexes) {
		return p
	}
	use := []string{"none", "order", "group", "unique"}[gen.Weighted(t, "use", []int{1, 2, 2, 2})]
	pickIx := func(list [][]string) []string {
		return append([]string(nil), list[rng(t, "ix", 0, len(list)-1)]...)
	}
	switch use {
	case "order":
		ix := pickIx(pi.indexes)
		if len(ix) == 0 {
			return p
		}
		p.cols = ix[:rng(t, "prefix", 1, len(ix))]
	case "group":
		p.cols = pickIx(pi.indexes)
		if len(p.cols) == 0 {
			return p
		}
		p.nseeks = int32(rng(t, "nseeks", 1, 10))
		p.frac = 1 / float32(rng(t, "fracdiv", 1, 4))
	case "unique":
		if ki := keyIndexes(pi); len(ki) > 0 {
			p.cols = pickIx(ki)
		} else {
			p.cols = append([]string(nil), pi.cols...)
		}
		if len(p.cols) == 0 {
			return p
		}
		nextra := rng(t, "nextra", 0, len(p.cols)-1)
		for i := 0; i < nextra; i++ {
			c := pi.cols[rng(t, "extra", 0, len(pi.cols)-1)]
			if !contains(p.cols, c) {
				p.cols = append(p.cols, c)
			}
		}
		p.nseeks = int32(rng(t, "nseeks", 1, 10))
	default:
		return p
	}
	p.use = use
	return p
}

// basePlans are the ways real callers set a query up.
func basePlans(pi parsedT) []planT {
	ps := []planT{
		{name: "setup-read", mode: qry.ReadMode, use: "none", frac: 1},
		{name: "setup-update", mode: qry.UpdateMode, use: "none", frac: 1},
		{name: "setup-cursor", mode: qry.CursorMode, use: "none", frac: 1},
	}
	return ps
}

//-------------------------------------------------------------------
// strategy features

var stratRes = []*regexp.Regexp{
	regexp.MustCompile(`\b(join|leftjoin|semijoin) (1:1|1:n|n:1|n:n)`),
	regexp.MustCompile(`summarize-(seq|map|idx|tbl)\*?`),
	regexp.MustCompile(`project-(seq|copy|map)`),
	regexp.MustCompile(`union(-disjoint\([a-z0-9_]*\))?(-merge|-lookup)?`),
	regexp.MustCompile(`\b(intersect|minus|times|nothing)\b`),
	regexp.MustCompile(`\btempindex\b`),
	regexp.MustCompile(`where\*1`),
	regexp.MustCompile(`where /\*NOTHING\*/`),
}

var disjointRe = regexp.MustCompile(`-disjoint\([a-z0-9_]*\)`)

func stratFeatures(s string) []string {
	seen := map[string]bool{}
	var r []string
	for _, re := range stratRes {
		for _, m := range re.FindAllString(s, -1) {
			m = disjointRe.ReplaceAllString(m, "-disjoint")
			if !seen[m] {
				seen[m] = true
				r = append(r, m)
			}
		}
	}
	sort.Strings(r)
	return r
}
