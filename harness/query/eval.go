package query

// eval.go: the naive relational evaluator (the oracle of C22 and the row
// selector of C24). It evaluates the query tree as written: nested loops over
// decoded rows, no indexes, no rewriting. Semantics follow the operator
// documentation in suneidoc/Database/Queries:
//   - project/remove: remove duplicate rows
//   - union: rows of either, no duplicates; intersect: rows in both;
//     minus: rows of the first not in the second (equal column sets)
//   - join: pairs with equal common columns; leftjoin additionally keeps
//     unmatched left rows with "" in the right-only columns; semijoin: left
//     rows with a match; times: all pairs
//   - summarize: one row per distinct by-values, no rows for empty input;
//     min/max of a key on a table returns the record too
// Values are compared as packed strings (the canonical stored encoding).

import (
	"fmt"
	"sort"
	"strconv"
	"strings"

	"github.com/apmckinlay/gsuneido/core"
)

type rel struct {
	cols []string
	rows [][]string
}

func (r *rel) idx(col string) int {
	for i, c := range r.cols {
		if c == col {
			return i
		}
	}
	return -1
}

func (r *rel) env(row []string) env {
	e := make(env, len(r.cols))
	for i, c := range r.cols {
		e[c] = row[i]
	}
	return e
}

// maxModelRows bounds model results (raised for the many-key lookup class).
var maxModelRows = 600

type tooBig struct{}

func (tooBig) Error() string { return "model result too large" }

func rowKey(row []string) string {
	var sb strings.Builder
	for _, v := range row {
		sb.WriteString(strconv.Itoa(len(v)))
		sb.WriteByte(':')
		sb.WriteString(v)
	}
	return sb.String()
}

func pick(row []string, idx []int) []string {
	r := make([]string, len(idx))
	for i, j := range idx {
		if j >= 0 {
			r[i] = row[j]
		}
	}
	return r
}

func dedup(rows [][]string) [][]string {
	seen := map[string]bool{}
	var out [][]string
	for _, r := range rows {
		k := rowKey(r)
		if !seen[k] {
			seen[k] = true
			out = append(out, r)
		}
	}
	return out
}

func (d *dbT) eval(q *qnode) (*rel, error) {
	r, err := d.eval1(q)
	if err != nil {
		return nil, err
	}
	if len(r.rows) > maxModelRows {
		return nil, tooBig{}
	}
	return r, nil
}

func (d *dbT) eval1(q *qnode) (*rel, error) {
	switch q.op {
	case "table":
		tb := d.table(q.name)
		return &rel{cols: tb.colNames(), rows: tb.rows}, nil
	case "view":
		return d.eval(q.viewOf)
	}
	s, err := d.eval(q.src)
	if err != nil {
		return nil, err
	}
	var s2 *rel
	if q.src2 != nil {
		if s2, err = d.eval(q.src2); err != nil {
			return nil, err
		}
	}
	switch q.op {
	case "where":
		out := &rel{cols: s.cols}
		for _, row := range s.rows {
			v, err := q.expr.eval(s.env(row))
			if err != nil {
				return nil, err
			}
			if v != core.True && v != core.False {
				return nil, fmt.Errorf("where: not boolean")
			}
			if v == core.True {
				out.rows = append(out.rows, row)
			}
		}
		return out, nil
	case "project", "remove":
		cols := q.cols
		if q.op == "remove" {
			cols = without(s.cols, q.cols)
		}
		idx := make([]int, len(cols))
		for i, c := range cols {
			idx[i] = s.idx(c)
		}
		out := &rel{cols: cols}
		for _, row := range s.rows {
			out.rows = append(out.rows, pick(row, idx))
		}
		out.rows = dedup(out.rows)
		return out, nil
	case "rename":
		cols := append([]string(nil), s.cols...)
		for i := range q.from {
			for j := range cols {
				if cols[j] == q.from[i] {
					cols[j] = q.to[i]
					break
				}
			}
		}
		return &rel{cols: cols, rows: s.rows}, nil
	case "extend":
		out := &rel{cols: append(append([]string(nil), s.cols...), q.ecols...)}
		for _, row := range s.rows {
			nr := append([]string(nil), row...)
			e := s.env(row)
			for i, x := range q.exprs {
				p, err := x.evalPacked(e)
				if err != nil {
					return nil, err
				}
				e[q.ecols[i]] = p
				nr = append(nr, p)
			}
			out.rows = append(out.rows, nr)
		}
		return out, nil
	case "summarize":
		return summarize(q, s)
	case "times":
		out := &rel{cols: append(append([]string(nil), s.cols...), s2.cols...)}
		if len(s.rows)*len(s2.rows) > maxModelRows {
			return nil, tooBig{}
		}
		for _, a := range s.rows {
			for _, b := range s2.rows {
				out.rows = append(out.rows, append(append([]string(nil), a...), b...))
			}
		}
		return out, nil
	case "join", "leftjoin", "semijoin":
		cm := common(s.cols, s2.cols)
		i1 := make([]int, len(cm))
		i2 := make([]int, len(cm))
		for i, c := range cm {
			i1[i], i2[i] = s.idx(c), s2.idx(c)
		}
		extra := without(s2.cols, cm)
		ie := make([]int, len(extra))
		for i, c := range extra {
			ie[i] = s2.idx(c)
		}
		out := &rel{cols: s.cols}
		if q.op != "semijoin" {
			out.cols = append(append([]string(nil), s.cols...), extra...)
		}
		kb := make([]string, len(s2.rows))
		for j, b := range s2.rows {
			kb[j] = rowKey(pick(b, i2))
		}
		for _, a := range s.rows {
			matched := false
			ka := rowKey(pick(a, i1))
			for j, b := range s2.rows {
				if ka != kb[j] {
					continue
				}
				matched = true
				if q.op == "semijoin" {
					break
				}
				out.rows = append(out.rows, append(append([]string(nil), a...), pick(b, ie)...))
				if len(out.rows) > maxModelRows {
					return nil, tooBig{}
				}
			}
			if q.op == "semijoin" && matched {
				out.rows = append(out.rows, a)
			}
			if q.op == "leftjoin" && !matched {
				out.rows = append(out.rows, append(append([]string(nil), a...), make([]string, len(extra))...))
			}
		}
		return out, nil
	case "union", "intersect", "minus":
		if !sameSet(s.cols, s2.cols) {
			return nil, fmt.Errorf("model: %s of different column sets", q.op)
		}
		idx := make([]int, len(s.cols))
		for i, c := range s.cols {
			idx[i] = s2.idx(c)
		}
		in2 := map[string]bool{}
		var rows2 [][]string
		for _, b := range s2.rows {
			nb := pick(b, idx)
			rows2 = append(rows2, nb)
			in2[rowKey(nb)] = true
		}
		out := &rel{cols: s.cols}
		switch q.op {
		case "union":
			out.rows = dedup(append(append([][]string(nil), s.rows...), rows2...))
		case "intersect":
			for _, a := range s.rows {
				if in2[rowKey(a)] {
					out.rows = append(out.rows, a)
				}
			}
			out.rows = dedup(out.rows)
		case "minus":
			for _, a := range s.rows {
				if !in2[rowKey(a)] {
					out.rows = append(out.rows, a)
				}
			}
			out.rows = dedup(out.rows)
		}
		return out, nil
	}
	return nil, fmt.Errorf("model: unknown op %s", q.op)
}

func summarize(q *qnode, s *rel) (*rel, error) {
	byIdx := make([]int, len(q.cols))
	for i, c := range q.cols {
		byIdx[i] = s.idx(c)
	}
	type group struct {
		by   []string
		rows [][]string
	}
	var order []string
	groups := map[string]*group{}
	for _, row := range s.rows {
		by := pick(row, byIdx)
		k := rowKey(by)
		g := groups[k]
		if g == nil {
			g = &group{by: by}
			groups[k] = g
			order = append(order, k)
		}
		g.rows = append(g.rows, row)
	}
	out := &rel{}
	if q.whole {
		out.cols = append(out.cols, s.cols...)
	} else {
		out.cols = append(out.cols, q.cols...)
	}
	for i, op := range q.sops {
		name := q.scols[i]
		if name == "" {
			name = op
			if q.sons[i] != "" {
				name += "_" + q.sons[i]
			}
		}
		out.cols = append(out.cols, name)
	}
	for _, k := range order {
		g := groups[k]
		var nr []string
		if !q.whole {
			nr = append(nr, g.by...)
		}
		var wholeRow []string
		for i, op := range q.sops {
			on := -1
			if q.sons[i] != "" {
				on = s.idx(q.sons[i])
			}
			switch op {
			case "count":
				nr = append(nr, core.Pack(core.IntVal(len(g.rows)).(core.Packable)))
			case "total", "average":
				var total core.Value = core.Zero
				for _, row := range g.rows {
					v, err := callOp("+", total, core.Unpack(row[on]))
					if err != nil {
						return nil, fmt.Errorf("summarize %s: %v", op, err)
					}
					total = v
				}
				if op == "average" {
					v, err := callOp("/", total, core.IntVal(len(g.rows)))
					if err != nil {
						return nil, err
					}
					total = v
				}
				nr = append(nr, core.Pack(total.(core.Packable)))
			case "min", "max":
				best := g.rows[0]
				for _, row := range g.rows[1:] {
					if (op == "min" && row[on] < best[on]) || (op == "max" && row[on] > best[on]) {
						best = row
					}
				}
				nr = append(nr, best[on])
				wholeRow = best
			case "list":
				seen := map[string]bool{}
				var vals []core.Value
				for _, row := range g.rows {
					if !seen[row[on]] {
						seen[row[on]] = true
						vals = append(vals, core.Unpack(row[on]))
					}
				}
				sort.SliceStable(vals, func(i, j int) bool { return vals[i].Compare(vals[j]) < 0 })
				nr = append(nr, core.Pack(core.NewSuObject(vals)))
			}
		}
		if q.whole {
			nr = append(append([]string(nil), wholeRow...), nr...)
		}
		out.rows = append(out.rows, nr)
	}
	return out, nil
}

// canonRows renders rows as sorted strings over the sorted column list.
func canonRows(cols []string, rows [][]string) []string {
	order := append([]string(nil), cols...)
	sort.Strings(order)
	idx := make([]int, len(order))
	for i, c := range order {
		for j, c2 := range cols {
			if c2 == c {
				idx[i] = j
			}
		}
	}
	out := make([]string, len(rows))
	for i, r := range rows {
		out[i] = rowKey(pick(r, idx))
	}
	sort.Strings(out)
	return out
}

// showRows renders rows readably (column: value) in canonical order.
func showRows(cols []string, rows [][]string, limit int) string {
	order := append([]string(nil), cols...)
	sort.Strings(order)
	var lines []string
	for _, r := range rows {
		var parts []string
		for _, c := range order {
			for j, c2 := range cols {
				if c2 == c {
					parts = append(parts, c+": "+unpackStr(r[j]))
				}
			}
		}
		lines = append(lines, "    ["+strings.Join(parts, ", ")+"]")
	}
	sort.Strings(lines)
	if len(lines) > limit {
		lines = append(lines[:limit], fmt.Sprintf("    ... %d more", len(lines)-limit))
	}
	return strings.Join(lines, "\n")
}
