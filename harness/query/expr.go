package query

// expr.go: typed expression trees for where/extend/update, rendered to query
// text and evaluated by the model. Every operator is evaluated by compiling a
// one-operator Suneido function and calling it (the language is the
// semantics); the tree walk itself (and/or/not/?:/in) is done here.

import (
	"errors"
	"fmt"
	"sort"
	"strings"

	"github.com/apmckinlay/gsuneido/compile"
	"github.com/apmckinlay/gsuneido/core"
	"github.com/apmckinlay/gsuneido/core/types"
	"pgregory.net/rapid"
)

type exprT struct {
	op   string // "const" "col" "not" "neg" "and" "or" "in" "cond" or a binary operator
	lit  lit
	col  string
	args []*exprT
	typ  ctype
	null bool
}

func (e *exprT) String() string {
	switch e.op {
	case "const":
		return e.lit.src
	case "col":
		return e.col
	case "not":
		return "not (" + e.args[0].String() + ")"
	case "neg":
		return "-(" + e.args[0].String() + ")"
	case "and", "or":
		parts := make([]string, len(e.args))
		for i, a := range e.args {
			parts[i] = "(" + a.String() + ")"
		}
		return strings.Join(parts, " "+e.op+" ")
	case "in":
		parts := make([]string, len(e.args)-1)
		for i, a := range e.args[1:] {
			parts[i] = a.String()
		}
		return e.args[0].paren() + " in (" + strings.Join(parts, ", ") + ")"
	case "cond":
		return "(" + e.args[0].String() + ") ? " + e.args[1].paren() + " : " + e.args[2].paren()
	}
	return e.args[0].paren() + " " + e.op + " " + e.args[1].paren()
}

func (e *exprT) paren() string {
	if e.op == "const" || e.op == "col" {
		return e.String()
	}
	return "(" + e.String() + ")"
}

func (e *exprT) columns(into map[string]bool) {
	if e.op == "col" {
		into[e.col] = true
	}
	for _, a := range e.args {
		a.columns(into)
	}
}

func (e *exprT) nops() int {
	n := 0
	if e.op != "const" && e.op != "col" {
		n = 1
	}
	for _, a := range e.args {
		n += a.nops()
	}
	return n
}

//-------------------------------------------------------------------
// evaluation

// errDocumented: the evaluation hit the one documented difference between
// the language and stored encodings: "" ordered against a number or boolean
// (options.StrictCompareDb exists to flag exactly these). Cases that reach it
// are excluded and counted.
var errDocumented = errors.New("\"\" ordered against number/boolean")

var opFns = map[string]core.Value{}
var evalThread = &core.Thread{}

func opFn(op string) core.Value {
	fn, ok := opFns[op]
	if !ok {
		fn = compile.Constant("function (a, b) { return a " + op + " b }")
		opFns[op] = fn
	}
	return fn
}

func callOp(op string, a, b core.Value) (v core.Value, err error) {
	defer func() {
		if e := recover(); e != nil {
			err = fmt.Errorf("%v", e)
		}
	}()
	return evalThread.Call(opFn(op), a, b), nil
}

var negFn core.Value

func callNeg(a core.Value) (v core.Value, err error) {
	defer func() {
		if e := recover(); e != nil {
			err = fmt.Errorf("%v", e)
		}
	}()
	if negFn == nil {
		negFn = compile.Constant("function (a) { return -a }")
	}
	return evalThread.Call(negFn, a), nil
}

func isNumOrBool(v core.Value) bool {
	switch v.Type() {
	case types.Number, types.Boolean:
		return true
	}
	return false
}

func isEmptyStr(v core.Value) bool {
	s, ok := v.ToStr()
	return ok && s == ""
}

type env map[string]string // column -> packed value

// arithOps: operators of purely arithmetic / concatenation subtrees. Such a
// subtree is compiled as a whole (`function (cols) { return <text> }`) and
// called, because the compiler's folder regroups nested sums and products
// (a + (b + c) becomes a + b + c), and 16 digit decimal arithmetic is not
// associative on inexact values: the language, not the written grouping, is
// the semantics.
var arithOps = map[string]bool{"+": true, "-": true, "*": true, "neg": true, "$": true}

func (e *exprT) pureArith() bool {
	if e.op == "col" || e.op == "const" {
		return true
	}
	if !arithOps[e.op] {
		return false
	}
	for _, a := range e.args {
		if !a.pureArith() {
			return false
		}
	}
	return true
}

type compiledT struct {
	fn     core.Value
	params []string
	object bool // more than 4 columns: passed as members of one object
}

var compiledExprs = map[string]*compiledT{}

func (e *exprT) evalCompiled(row env) (v core.Value, err error) {
	text := e.String()
	c := compiledExprs[text]
	if c == nil {
		cols := map[string]bool{}
		e.columns(cols)
		c = &compiledT{}
		for _, g := range sortedKeys(cols) {
			c.params = append(c.params, g)
		}
		src := "function (" + strings.Join(c.params, ", ") + ") { return " + text + " }"
		if len(c.params) > 4 {
			c.object = true
			src = "function (verifrow) { "
			for _, p := range c.params {
				src += p + " = verifrow." + p + "; "
			}
			src += "return " + text + " }"
		}
		func() {
			defer func() {
				if x := recover(); x != nil {
					err = fmt.Errorf("compile %s: %v", src, x)
				}
			}()
			c.fn = compile.Constant(src)
		}()
		if err != nil {
			return nil, err
		}
		compiledExprs[text] = c
	}
	args := make([]core.Value, len(c.params))
	for i, p := range c.params {
		pv, ok := row[p]
		if !ok {
			return nil, fmt.Errorf("model: no column %s", p)
		}
		args[i] = core.Unpack(pv)
	}
	defer func() {
		if x := recover(); x != nil {
			err = fmt.Errorf("%v", x)
		}
	}()
	if c.object {
		ob := &core.SuObject{}
		for i, p := range c.params {
			ob.Set(core.SuStr(p), args[i])
		}
		return evalThread.Call(c.fn, ob), nil
	}
	return evalThread.Call(c.fn, args...), nil
}

func sortedKeys(m map[string]bool) []string {
	var r []string
	for k := range m {
		r = append(r, k)
	}
	sort.Strings(r)
	return r
}

func (e *exprT) eval(row env) (core.Value, error) {
	if arithOps[e.op] && e.pureArith() {
		return e.evalCompiled(row)
	}
	switch e.op {
	case "const":
		return core.Unpack(e.lit.packed), nil
	case "col":
		p, ok := row[e.col]
		if !ok {
			return nil, fmt.Errorf("model: no column %s", e.col)
		}
		return core.Unpack(p), nil
	case "not":
		v, err := e.args[0].eval(row)
		if err != nil {
			return nil, err
		}
		if v != core.True && v != core.False {
			return nil, fmt.Errorf("not: boolean required")
		}
		return core.SuBool(v == core.False), nil
	case "neg":
		v, err := e.args[0].eval(row)
		if err != nil {
			return nil, err
		}
		return callNeg(v)
	case "and", "or":
		for _, a := range e.args {
			v, err := a.eval(row)
			if err != nil {
				return nil, err
			}
			if v != core.True && v != core.False {
				return nil, fmt.Errorf("%s: boolean required", e.op)
			}
			if e.op == "and" && v == core.False {
				return core.False, nil
			}
			if e.op == "or" && v == core.True {
				return core.True, nil
			}
		}
		return core.SuBool(e.op == "and"), nil
	case "in":
		v, err := e.args[0].eval(row)
		if err != nil {
			return nil, err
		}
		for _, a := range e.args[1:] {
			c, err := a.eval(row)
			if err != nil {
				return nil, err
			}
			r, err := callOp("is", v, c)
			if err != nil {
				return nil, err
			}
			if r == core.True {
				return core.True, nil
			}
		}
		return core.False, nil
	case "cond":
		c, err := e.args[0].eval(row)
		if err != nil {
			return nil, err
		}
		if c != core.True && c != core.False {
			return nil, fmt.Errorf("?: boolean required")
		}
		if c == core.True {
			return e.args[1].eval(row)
		}
		return e.args[2].eval(row)
	}
	a, err := e.args[0].eval(row)
	if err != nil {
		return nil, err
	}
	b, err := e.args[1].eval(row)
	if err != nil {
		return nil, err
	}
	switch e.op {
	case "<", "<=", ">", ">=":
		if (isEmptyStr(a) && isNumOrBool(b)) || (isEmptyStr(b) && isNumOrBool(a)) {
			return nil, errDocumented
		}
	}
	return callOp(e.op, a, b)
}

func (e *exprT) evalPacked(row env) (string, error) {
	v, err := e.eval(row)
	if err != nil {
		return "", err
	}
	p, ok := v.(core.Packable)
	if !ok {
		return "", fmt.Errorf("model: value not packable: %v", v)
	}
	return core.Pack(p), nil
}

//-------------------------------------------------------------------
// generation

type exprGen struct {
	t       *rapid.T
	cols    []colT
	present map[string][]lit // values stored in the tables, by column name
	lead    []string         // leading columns of composite indexes
}

// stored draws n different values that are present in the data for col.
func (g *exprGen) stored(col string, n int) []lit {
	p := g.present[col]
	if len(p) == 0 {
		return nil
	}
	var names []string
	for i := range p {
		names = append(names, fmt.Sprint(i))
	}
	var r []lit
	for _, s := range subsetOf(g.t, names, min(n, len(p)), min(n, len(p)), "stored") {
		var i int
		fmt.Sscan(s, &i)
		r = append(r, p[i])
	}
	return r
}

func (g *exprGen) pick(label string, pred func(colT) bool) (colT, bool) {
	var cs []colT
	for _, c := range g.cols {
		if pred(c) {
			cs = append(cs, c)
		}
	}
	if len(cs) == 0 {
		return colT{}, false
	}
	return pickOf(g.t, label, cs), true
}

func colExpr(c colT) *exprT {
	return &exprT{op: "col", col: c.name, typ: c.typ, null: c.null}
}

func constExpr(l lit) *exprT {
	return &exprT{op: "const", lit: l, typ: l.typ, null: l.packed == ""}
}

func bin(op string, a, b *exprT, typ ctype) *exprT {
	return &exprT{op: op, args: []*exprT{a, b}, typ: typ}
}

var cmpOps = []string{"is", "isnt", "<", "<=", ">", ">="}

func notObj(c colT) bool { return c.typ != tObj }

// numeric: arithmetic is total on numbers and "" (which converts to 0).
func numeric(c colT) bool { return c.typ == tNum }

func (g *exprGen) constFor(c colT, ordering bool) *exprT {
	var lits []lit
	if ordering && c.mayBeEmpty() {
		// keep "" away from numbers and booleans
		lits = append(lits, strLits...)
		lits = append(lits, dateLits...)
	} else {
		if !ordering && len(g.present[c.name]) > 0 && chance(g.t, "storedconst", 60) {
			return constExpr(g.stored(c.name, 1)[0])
		}
		lits = litsFor(c.typ)
		if rng(g.t, "othertype", 0, 7) == 0 {
			lits = mixLits()
		}
		if ordering {
			var l2 []lit
			for _, l := range lits {
				if l.packed != "" {
					l2 = append(l2, l)
				}
			}
			lits = l2
		}
	}
	return constExpr(pickOf(g.t, "const", lits))
}

// boolean draws an expression that evaluates to true/false on every row.
func (g *exprGen) boolean(depth int) *exprT {
	k := rng(g.t, "bkind", 0, 14)
	if k >= 12 {
		k = 5 // in-lists: 4 of 15
	}
	if depth <= 0 && k >= 8 {
		k = k % 6
	}
	switch {
	case k <= 3: // column <cmp> constant
		c, ok := g.pick("ccol", notObj)
		if !ok {
			return constExpr(boolLits[0])
		}
		op := pickOf(g.t, "cmp", cmpOps)
		return bin(op, colExpr(c), g.constFor(c, op != "is" && op != "isnt"), tBool)
	case k == 4: // column <cmp> column
		c1, ok := g.pick("ccol1", notObj)
		if !ok {
			return constExpr(boolLits[0])
		}
		op := pickOf(g.t, "cmp", cmpOps)
		c2, ok := g.pick("ccol2", func(c colT) bool {
			if c.typ == tObj {
				return false
			}
			if op == "is" || op == "isnt" {
				return true
			}
			if c1.typ == tStr {
				return c.typ == tStr
			}
			return !c1.mayBeEmpty() && !c.mayBeEmpty()
		})
		if !ok {
			return bin("is", colExpr(c1), g.constFor(c1, false), tBool)
		}
		return bin(op, colExpr(c1), colExpr(c2), tBool)
	case k == 5: // in (or an `or` of equalities)
		c, ok := g.pick("icol", notObj)
		if !ok {
			return constExpr(boolLits[1])
		}
		// prefer a leading column of a composite index
		if chance(g.t, "inlead", 50) {
			if lc, ok := g.pick("ileadcol", func(x colT) bool { return x.typ != tObj && contains(g.lead, x.name) }); ok {
				c = lc
			}
		}
		args := []*exprT{colExpr(c)}
		if st := g.stored(c.name, rng(g.t, "nstored", 2, 3)); len(st) >= 2 && chance(g.t, "instored", 75) {
			// 2-3 values that are actually stored
			for _, l := range st {
				args = append(args, constExpr(l))
			}
		} else {
			n := rng(g.t, "nin", 1, 3)
			for i := 0; i < n; i++ {
				args = append(args, g.constFor(c, false))
			}
		}
		if len(args) > 2 && chance(g.t, "inasor", 25) {
			e := &exprT{op: "or", typ: tBool}
			for _, a := range args[1:] {
				e.args = append(e.args, bin("is", colExpr(c), a, tBool))
			}
			return e
		}
		return &exprT{op: "in", args: args, typ: tBool}
	case k == 6: // range
		c, ok := g.pick("rcol", notObj)
		if !ok {
			return constExpr(boolLits[0])
		}
		lo := g.constFor(c, true)
		hi := g.constFor(c, true)
		return &exprT{op: "and", typ: tBool, args: []*exprT{
			bin(pickOf(g.t, "lo", []string{">", ">="}), colExpr(c), lo, tBool),
			bin(pickOf(g.t, "hi", []string{"<", "<="}), colExpr(c), hi, tBool)}}
	case k == 7: // arithmetic comparison
		a, ok := g.number(1)
		if !ok {
			return constExpr(boolLits[0])
		}
		var b *exprT
		if chance(g.t, "arithconst", 50) {
			b = constExpr(pickOf(g.t, "nconst", numLits))
		} else {
			b, _ = g.number(1)
		}
		return bin(pickOf(g.t, "cmp", cmpOps), a, b, tBool)
	case k == 8 || k == 9:
		n := rng(g.t, "nand", 2, 3)
		e := &exprT{op: "and", typ: tBool}
		if k == 9 {
			e.op = "or"
		}
		for i := 0; i < n; i++ {
			e.args = append(e.args, g.boolean(depth-1))
		}
		return e
	case k == 10:
		return &exprT{op: "not", args: []*exprT{g.boolean(depth - 1)}, typ: tBool}
	default: // conjunction of equalities (point select / fixed)
		n := rng(g.t, "neq", 1, 2)
		e := &exprT{op: "and", typ: tBool}
		for i := 0; i < n; i++ {
			c, ok := g.pick("eqcol", notObj)
			if !ok {
				return constExpr(boolLits[0])
			}
			e.args = append(e.args, bin("is", colExpr(c), g.constFor(c, false), tBool))
		}
		if len(e.args) == 1 {
			return e.args[0]
		}
		return e
	}
}

// number draws an arithmetic expression over numeric columns (total:
// numbers and "" only, no division).
func (g *exprGen) number(depth int) (*exprT, bool) {
	c, ok := g.pick("ncol", numeric)
	if !ok {
		if depth <= 0 {
			return nil, false
		}
		return constExpr(pickOf(g.t, "nconst", numLits)), true
	}
	if depth <= 0 || rng(g.t, "nleaf", 0, 2) == 0 {
		return colExpr(c), true
	}
	switch rng(g.t, "nkind", 0, 4) {
	case 0:
		return bin("+", colExpr(c), constExpr(pickOf(g.t, "nconst", numLits)), tNum), true
	case 1:
		b, _ := g.number(depth - 1)
		return bin("-", colExpr(c), b, tNum), true
	case 2:
		return bin("*", colExpr(c), constExpr(pickOf(g.t, "nconst", numLits[:10])), tNum), true
	case 3:
		b, _ := g.number(depth - 1)
		return bin("+", colExpr(c), b, tNum), true
	default:
		return &exprT{op: "neg", args: []*exprT{colExpr(c)}, typ: tNum}, true
	}
}

func (g *exprGen) str() (*exprT, bool) {
	c, ok := g.pick("scol", func(c colT) bool { return c.typ == tStr })
	if !ok {
		return nil, false
	}
	var b *exprT
	switch rng(g.t, "skind", 0, 2) {
	case 0:
		b = constExpr(pickOf(g.t, "sconst", strLits))
	case 1:
		if n, ok := g.number(0); ok {
			b = n
		} else {
			b = constExpr(strLits[1])
		}
	default:
		c2, _ := g.pick("scol2", func(c colT) bool { return c.typ == tStr })
		b = colExpr(c2)
	}
	return bin("$", colExpr(c), b, tStr), true
}

// value draws an expression for extend / update set.
func (g *exprGen) value(want ctype, anyType bool) *exprT {
	k := rng(g.t, "vkind", 0, 9)
	if !anyType {
		// keep the column's type class
		switch want {
		case tNum:
			if e, ok := g.number(2); ok && k < 7 {
				return e
			}
			return constExpr(pickOf(g.t, "nconst", numLits))
		case tStr:
			if e, ok := g.str(); ok && k < 6 {
				return e
			}
			return constExpr(pickOf(g.t, "sconst", strLits))
		case tDate:
			return constExpr(pickOf(g.t, "dconst", dateLits))
		default:
			if c, ok := g.pick("vcol", notObj); ok && k < 4 {
				return colExpr(c)
			}
			return constExpr(pickOf(g.t, "mconst", mixLits()))
		}
	}
	switch {
	case k <= 1:
		return constExpr(pickOf(g.t, "mconst", mixLits()))
	case k == 2:
		if c, ok := g.pick("vcol", func(colT) bool { return true }); ok {
			return colExpr(c)
		}
	case k <= 5:
		if e, ok := g.number(2); ok {
			return e
		}
	case k == 6:
		if e, ok := g.str(); ok {
			return e
		}
	case k == 7:
		return g.boolean(1)
	case k == 8:
		c := g.boolean(0)
		a := g.value(tMix, true)
		b := g.value(tMix, true)
		typ := tMix
		if a.typ == b.typ {
			typ = a.typ
		}
		return &exprT{op: "cond", args: []*exprT{c, a, b}, typ: typ, null: a.null || b.null || a.typ != b.typ}
	}
	return constExpr(pickOf(g.t, "nconst", numLits))
}
