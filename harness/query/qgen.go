package query

// qgen.go: query trees, rendering to query text, and the typed random
// grammar. The generator only builds trees that satisfy the constructor
// checks of the parser (existing columns, common/disjoint/equal column sets,
// fresh names), so every rendered query parses.

import (
	"fmt"
	"strings"

	"pgregory.net/rapid"
)

type qnode struct {
	op   string // table view where project remove rename extend summarize join leftjoin semijoin times union intersect minus
	name string // table / view
	src  *qnode
	src2 *qnode

	expr   *exprT    // where
	cols   []string  // project / remove / summarize by
	from   []string  // rename
	to     []string  // rename
	ecols  []string  // extend
	exprs  []*exprT  // extend
	scols  []string  // summarize: output names ("" = default)
	sops   []string  // summarize: count total average min max list
	sons   []string  // summarize: on columns ("" for count)
	by     bool      // join: render the by(...) assertion
	whole  bool      // summarize: min/max of a key returns the whole record
	out    []colT    // output columns
	viewOf *qnode    // view: its definition
	silent bool      // extend: part of the model only, not rendered (diffCols: a missing column reads as "")
}

func (q *qnode) outNames() []string {
	r := make([]string, len(q.out))
	for i, c := range q.out {
		r[i] = c.name
	}
	return r
}

func (q *qnode) outCol(name string) (colT, bool) {
	for _, c := range q.out {
		if c.name == name {
			return c, true
		}
	}
	return colT{}, false
}

func (q *qnode) String() string {
	switch q.op {
	case "table", "view":
		return q.name
	case "where":
		return q.src.lhs() + " where " + q.expr.String()
	case "project", "remove":
		if q.silent {
			return q.src.String()
		}
		return q.src.lhs() + " " + q.op + " " + strings.Join(q.cols, ", ")
	case "rename":
		parts := make([]string, len(q.from))
		for i := range q.from {
			parts[i] = q.from[i] + " to " + q.to[i]
		}
		return q.src.lhs() + " rename " + strings.Join(parts, ", ")
	case "extend":
		if q.silent {
			return q.src.String()
		}
		parts := make([]string, len(q.ecols))
		for i := range q.ecols {
			parts[i] = q.ecols[i] + " = " + q.exprs[i].String()
		}
		return q.src.lhs() + " extend " + strings.Join(parts, ", ")
	case "summarize":
		var sb strings.Builder
		sb.WriteString(q.src.lhs() + " summarize ")
		for _, c := range q.cols {
			sb.WriteString(c + ", ")
		}
		for i := range q.sops {
			if i > 0 {
				sb.WriteString(", ")
			}
			if q.scols[i] != "" {
				sb.WriteString(q.scols[i] + " = ")
			}
			sb.WriteString(q.sops[i])
			if q.sons[i] != "" {
				sb.WriteString(" " + q.sons[i])
			}
		}
		return sb.String()
	case "join", "leftjoin", "semijoin":
		by := ""
		if q.by {
			by = " by(" + strings.Join(common(q.src.outNames(), q.src2.outNames()), ",") + ")"
		}
		return q.src.lhs() + " " + q.op + by + " " + q.src2.rhs()
	default: // times union intersect minus
		return q.src.lhs() + " " + q.op + " " + q.src2.rhs()
	}
}

// lhs: operations are left associative, so a left operand only needs
// parentheses for readability; we add them around binary operations.
func (q *qnode) lhs() string {
	if q.silent {
		return q.src.lhs()
	}
	if q.src2 != nil {
		return "(" + q.String() + ")"
	}
	return q.String()
}

func (q *qnode) rhs() string {
	if q.silent {
		return q.src.rhs()
	}
	if q.op == "table" || q.op == "view" {
		return q.name
	}
	return "(" + q.String() + ")"
}

func (q *qnode) walk(f func(*qnode)) {
	f(q)
	if q.src != nil {
		q.src.walk(f)
	}
	if q.src2 != nil {
		q.src2.walk(f)
	}
}

// ops lists the operators of the tree (views expanded).
func (q *qnode) ops() []string {
	var r []string
	q.walk(func(n *qnode) {
		if n.op == "view" {
			r = append(r, "view")
			r = append(r, n.viewOf.ops()...)
		} else if n.op != "table" {
			r = append(r, n.op)
		}
	})
	return r
}

func (q *qnode) depth() int {
	d := 0
	if q.src != nil {
		d = q.src.depth()
	}
	if q.src2 != nil && q.src2.depth() > d {
		d = q.src2.depth()
	}
	if q.op == "view" {
		return q.viewOf.depth()
	}
	if q.op == "table" {
		return 0
	}
	return d + 1
}

func (q *qnode) tables() map[string]bool {
	r := map[string]bool{}
	var rec func(n *qnode)
	rec = func(n *qnode) {
		n.walk(func(m *qnode) {
			if m.op == "table" {
				r[m.name] = true
			}
			if m.op == "view" {
				rec(m.viewOf)
			}
		})
	}
	rec(q)
	return r
}

type topQ struct {
	q       *qnode
	sort    []string
	reverse bool
}

func (tq *topQ) String() string {
	s := tq.q.String()
	if len(tq.sort) > 0 {
		s += " sort "
		if tq.reverse {
			s += "reverse "
		}
		s += strings.Join(tq.sort, ", ")
	}
	return s
}

func common(a, b []string) []string {
	var r []string
	for _, x := range a {
		if contains(b, x) {
			r = append(r, x)
		}
	}
	return r
}

func without(a, b []string) []string {
	var r []string
	for _, x := range a {
		if !contains(b, x) {
			r = append(r, x)
		}
	}
	return r
}

//-------------------------------------------------------------------

type qgen struct {
	t       *rapid.T
	db      *dbT
	fresh   int
	only    map[string]bool // if set, restrict to these tables (no views)
	diffOK  bool            // C22 only: some requests are a union/minus of operands with different column sets
	present map[string][]lit
	lead    []string
}

func (g *qgen) exprGen(cols []colT) *exprGen {
	if g.present == nil {
		g.present = g.db.present()
		g.lead = g.db.leadCols()
	}
	return &exprGen{t: g.t, cols: cols, present: g.present, lead: g.lead}
}

func (g *qgen) newName(prefix string) string {
	g.fresh++
	return fmt.Sprint(prefix, g.fresh)
}

func tableNode(tb *tableT) *qnode {
	return &qnode{op: "table", name: tb.name, out: append([]colT(nil), tb.cols...)}
}

func (g *qgen) leaf() *qnode {
	var choices []*qnode
	for _, tb := range g.db.tables {
		if g.only == nil || g.only[tb.name] {
			choices = append(choices, tableNode(tb))
		}
	}
	if g.only == nil {
		for _, v := range g.db.views {
			choices = append(choices, &qnode{op: "view", name: v.name, viewOf: v.def,
				out: append([]colT(nil), v.def.out...)})
		}
	}
	return pickOf(g.t, "leaf", choices)
}

var sumKeywords = []string{"count", "total", "average", "min", "max", "list"}

type opW struct {
	op string
	w  int
}

var opWeights = []opW{{"leaf", 4}, {"groupOverIn", 7}, {"where", 20}, {"project", 8}, {"remove", 5}, {"rename", 8},
	{"extend", 11}, {"summarize", 11}, {"join", 13}, {"leftjoin", 9}, {"semijoin", 3},
	{"times", 4}, {"union", 7}, {"intersect", 3}, {"minus", 4}}

func (g *qgen) pickOp() string {
	total := 0
	for _, w := range opWeights {
		total += w.w
	}
	n := rng(g.t, "op", 0, total-1)
	for _, w := range opWeights {
		if n < w.w {
			return w.op
		}
		n -= w.w
	}
	return "leaf"
}

// gen draws a query of depth <= depth.
func (g *qgen) gen(depth int) *qnode {
	if depth <= 0 {
		return g.leaf()
	}
	op := g.pickOp()
	switch op {
	case "leaf":
		return g.leaf()
	case "groupOverIn":
		return g.groupOverIn()
	case "where":
		return g.where(g.gen(depth - 1))
	case "project":
		return g.project(g.gen(depth-1), false)
	case "remove":
		return g.project(g.gen(depth-1), true)
	case "rename":
		return g.rename(g.gen(depth - 1))
	case "extend":
		return g.extend(g.gen(depth - 1))
	case "summarize":
		return g.summarize(g.gen(depth - 1))
	case "join", "leftjoin", "semijoin":
		return g.join(op, g.gen(depth-1), g.gen(rng(g.t, "rdepth", 0, depth-1)))
	case "times":
		return g.times(g.gen(depth-1), g.gen(rng(g.t, "rdepth", 0, depth-1)))
	default:
		return g.compatible(op, g.gen(depth-1), depth-1)
	}
}

func (g *qgen) where(src *qnode) *qnode {
	eg := g.exprGen(src.out)
	return &qnode{op: "where", src: src, expr: eg.boolean(2), out: src.out}
}

func (g *qgen) project(src *qnode, remove bool) *qnode {
	names := src.outNames()
	if len(names) < 2 && remove {
		return src // cannot remove all columns
	}
	var keep []string
	if remove {
		drop := subsetOf(g.t, names, 1, len(names)-1, "remove")
		q := &qnode{op: "remove", src: src, cols: drop}
		for _, c := range src.out {
			if !contains(drop, c.name) {
				q.out = append(q.out, c)
			}
		}
		return q
	}
	keep = subsetOf(g.t, names, 1, len(names), "project")
	q := &qnode{op: "project", src: src, cols: keep}
	for _, n := range keep {
		c, _ := src.outCol(n)
		q.out = append(q.out, c)
	}
	return q
}

func (g *qgen) rename(src *qnode) *qnode {
	names := src.outNames()
	n := rng(g.t, "nrename", 1, min(3, len(names)))
	cur := append([]colT(nil), src.out...)
	q := &qnode{op: "rename", src: src}
	removed := []string{} // names renamed away earlier in this rename (may be reused: shadowing)
	for i := 0; i < n; i++ {
		j := rng(g.t, "rfrom", 0, len(cur)-1)
		var to string
		k := rng(g.t, "rto", 0, 5)
		switch {
		case k == 0 && len(removed) > 0:
			to = removed[0] // reuse a name that was renamed away
		case k == 1:
			// a pool name that is not present: lets later joins match on it
			var cand []string
			for _, p := range pool {
				if p.typ == cur[j].typ {
					cand = append(cand, p.name)
				}
			}
			if len(cand) > 0 {
				to = pickOf(g.t, "rpool", cand)
			}
		}
		if to == "" {
			to = g.newName("r")
		}
		taken := false
		for _, c := range cur {
			if c.name == to {
				taken = true
			}
		}
		if taken {
			to = g.newName("r")
		}
		q.from = append(q.from, cur[j].name)
		q.to = append(q.to, to)
		removed = append(removed, cur[j].name)
		cur[j].name = to
	}
	q.out = cur
	return q
}

func (g *qgen) extend(src *qnode) *qnode {
	q := &qnode{op: "extend", src: src}
	avail := append([]colT(nil), src.out...)
	n := rng(g.t, "nextend", 1, 3)
	for i := 0; i < n; i++ {
		eg := g.exprGen(avail)
		e := eg.value(tMix, true)
		name := g.newName("x")
		// sometimes shadow a pool column that the source does not have
		if rng(g.t, "xpool", 0, 5) == 0 {
			var cand []string
			for _, p := range pool {
				if p.typ == e.typ || p.typ == tMix {
					taken := false
					for _, c := range avail {
						if c.name == p.name {
							taken = true
						}
					}
					if !taken {
						cand = append(cand, p.name)
					}
				}
			}
			if len(cand) > 0 {
				name = pickOf(g.t, "xname", cand)
			}
		}
		q.ecols = append(q.ecols, name)
		q.exprs = append(q.exprs, e)
		used := map[string]bool{}
		e.columns(used)
		inexact := false
		for _, c := range avail {
			if used[c.name] && c.inexact {
				inexact = true
			}
		}
		avail = append(avail, colT{name: name, typ: e.typ, null: e.null, inexact: inexact})
	}
	q.out = avail
	return q
}

func (g *qgen) summarize(src *qnode) *qnode {
	q := &qnode{op: "summarize", src: src}
	names := src.outNames()
	var byCand []string
	for _, n := range names {
		if !contains(sumKeywords, n) {
			byCand = append(byCand, n)
		}
	}
	if len(byCand) > 0 && rng(g.t, "hasby", 0, 3) != 0 {
		q.cols = subsetOf(g.t, byCand, 1, min(3, len(byCand)), "by")
	}
	onCand := without(names, q.cols)
	nops := rng(g.t, "nsum", 1, 3)
	used := map[string]bool{}
	for _, c := range q.cols {
		used[c] = true
	}
	for i := 0; i < nops; i++ {
		op := pickOf(g.t, "sumop", sumKeywords)
		on := ""
		var oc colT
		if op != "count" {
			var cand []colT
			for _, n := range onCand {
				c, _ := src.outCol(n)
				if (op == "total" || op == "average") && (c.typ != tNum || c.inexact) {
					continue
				}
				cand = append(cand, c)
			}
			if len(cand) == 0 {
				op = "count"
			} else {
				oc = pickOf(g.t, "sumon", cand)
				on = oc.name
			}
		}
		name := ""
		def := op
		if op != "count" {
			def = op + "_" + on
		}
		if k := rng(g.t, "sumname", 0, 8); k <= 2 || used[def] || contains(names, def) {
			name = g.newName("c")
			if k == 0 {
				// reuse the name of a source column that is neither a by nor
				// an on column (the output column shadows it)
				var cand []string
				for _, n := range onCand {
					if n != on && !contains(sumKeywords, n) {
						cand = append(cand, n)
					}
				}
				if len(cand) > 0 {
					name = pickOf(g.t, "sumshadow", cand)
				}
			}
		}
		outName := name
		if outName == "" {
			outName = def
		}
		if used[outName] {
			continue
		}
		used[outName] = true
		q.scols = append(q.scols, name)
		q.sops = append(q.sops, op)
		q.sons = append(q.sons, on)
	}
	if len(q.sops) == 0 {
		q.scols, q.sops, q.sons = []string{g.newName("c")}, []string{"count"}, []string{""}
	}
	// output names must not collide with on columns
	for i := range q.sops {
		outName := q.scols[i]
		if outName == "" {
			outName = q.sops[i]
			if q.sons[i] != "" {
				outName += "_" + q.sons[i]
			}
		}
		if contains(q.sons, outName) {
			q.scols[i] = g.newName("c")
		}
	}
	// "summarize min/max key" on a table also returns the record: modelled
	// only directly on a table; elsewhere avoid the special case.
	if len(q.cols) == 0 && len(q.sops) == 1 && (q.sops[0] == "min" || q.sops[0] == "max") {
		if src.op == "table" {
			tb := g.db.table(src.name)
			q.whole = hasSet(tb.keys, []string{q.sons[0]}) || hasSet(tb.keys, []string{})
			if q.whole && contains(names, q.scols[0]) {
				q.scols[0] = g.newName("c")
			}
		} else {
			q.scols = append(q.scols, g.newName("c"))
			q.sops = append(q.sops, "count")
			q.sons = append(q.sons, "")
		}
	}
	q.setSummarizeOut()
	return q
}

func (q *qnode) setSummarizeOut() {
	q.out = nil
	if q.whole {
		q.out = append(q.out, q.src.out...)
	} else {
		for _, c := range q.cols {
			oc, _ := q.src.outCol(c)
			q.out = append(q.out, oc)
		}
	}
	for i, op := range q.sops {
		name := q.scols[i]
		if name == "" {
			name = op
			if q.sons[i] != "" {
				name += "_" + q.sons[i]
			}
		}
		c := colT{name: name, typ: tNum}
		switch op {
		case "min", "max":
			oc, _ := q.src.outCol(q.sons[i])
			c.typ, c.null, c.inexact = oc.typ, oc.null, oc.inexact
		case "list":
			c.typ = tObj
		case "average":
			c.inexact = true
		}
		q.out = append(q.out, c)
	}
}

// join builds join/leftjoin/semijoin; if the operands have no common
// column the right one is renamed to create one.
func (g *qgen) join(op string, l, r *qnode) *qnode {
	cm := common(l.outNames(), r.outNames())
	if len(cm) == 0 {
		// rename a column of r to a column of l of the same type
		type pair struct{ rc, lc string }
		var cand []pair
		for _, rc := range r.out {
			for _, lc := range l.out {
				if rc.typ == lc.typ {
					cand = append(cand, pair{rc.name, lc.name})
				}
			}
		}
		if len(cand) == 0 {
			return l
		}
		p := pickOf(g.t, "joinrename", cand)
		out := append([]colT(nil), r.out...)
		for i := range out {
			if out[i].name == p.rc {
				out[i].name = p.lc
			}
		}
		r = &qnode{op: "rename", src: r, from: []string{p.rc}, to: []string{p.lc}, out: out}
	} else if len(cm) > 1 && rng(g.t, "narrowjoin", 0, 2) == 0 && len(r.out) > len(cm) {
		// join on fewer columns: remove some common columns from the right
		drop := subsetOf(g.t, cm, 1, len(cm)-1, "joindrop")
		q := &qnode{op: "remove", src: r, cols: drop}
		for _, c := range r.out {
			if !contains(drop, c.name) {
				q.out = append(q.out, c)
			}
		}
		r = q
	}
	q := &qnode{op: op, src: l, src2: r, by: rng(g.t, "by", 0, 4) == 0}
	// a where above the join is pushed to both operands, so a common column
	// only keeps its type class if both operands agree on it
	for _, c := range l.out {
		if rc, ok := r.outCol(c.name); ok {
			if rc.typ != c.typ {
				c.typ = tMix
			}
			c.null = c.null || rc.null
			c.inexact = c.inexact || rc.inexact
		}
		q.out = append(q.out, c)
	}
	if op != "semijoin" {
		for _, c := range r.out {
			if _, ok := l.outCol(c.name); !ok {
				if op == "leftjoin" {
					c.null = true
					if c.typ == tBool || c.typ == tObj {
						c.null = true
					}
				}
				q.out = append(q.out, c)
			}
		}
	}
	return q
}

func (g *qgen) times(l, r *qnode) *qnode {
	cm := common(l.outNames(), r.outNames())
	if len(cm) > 0 {
		if len(r.out) > len(cm) && chance(g.t, "timesremove", 50) {
			q := &qnode{op: "remove", src: r, cols: cm}
			for _, c := range r.out {
				if !contains(cm, c.name) {
					q.out = append(q.out, c)
				}
			}
			r = q
		} else {
			q := &qnode{op: "rename", src: r, out: append([]colT(nil), r.out...)}
			for i := range q.out {
				if contains(cm, q.out[i].name) {
					nn := g.newName("r")
					q.from = append(q.from, q.out[i].name)
					q.to = append(q.to, nn)
					q.out[i].name = nn
				}
			}
			r = q
		}
	}
	q := &qnode{op: "times", src: l, src2: r}
	q.out = append(q.out, l.out...)
	q.out = append(q.out, r.out...)
	return q
}

func projectTo(q *qnode, cols []string) *qnode {
	if sameSet(q.outNames(), cols) {
		return q
	}
	p := &qnode{op: "project", src: q, cols: cols}
	for _, n := range cols {
		c, _ := q.outCol(n)
		p.out = append(p.out, c)
	}
	return p
}

func clone(q *qnode) *qnode {
	if q == nil {
		return nil
	}
	c := *q
	c.src = clone(q.src)
	c.src2 = clone(q.src2)
	return &c
}

// compatible builds union/intersect/minus with equal column sets:
// either a variant of the left operand (same shape, other restriction), or
// another query projected to the common columns, or both sides extended with
// a distinguishing constant (disjoint union).
func (g *qgen) compatible(op string, l *qnode, rdepth int) *qnode {
	var r *qnode
	k := rng(g.t, "compat", 0, 9)
	if k >= 4 {
		r2 := g.gen(rdepth)
		cm := common(l.outNames(), r2.outNames())
		if len(cm) > 0 {
			if len(cm) > 1 && rng(g.t, "compatnarrow", 0, 3) == 0 {
				cm = subsetOf(g.t, cm, 1, len(cm), "compatcols")
			}
			l = projectTo(l, cm)
			r = projectTo(r2, cm)
		}
	}
	if r == nil {
		// variant of l
		r = clone(l)
		if rng(g.t, "variantwhere", 0, 4) != 0 {
			r = g.where(r)
		}
		if chance(g.t, "leftwhere", 50) {
			l = g.where(l)
		}
	}
	if k == 0 || k == 9 {
		// tag both sides: extend the same new column with (usually) different constants
		name := g.newName("x")
		c1 := pickOf(g.t, "tag1", numLits[:4])
		c2 := pickOf(g.t, "tag2", numLits[:4])
		tag := func(q *qnode, c lit) *qnode {
			e := &qnode{op: "extend", src: q, ecols: []string{name}, exprs: []*exprT{constExpr(c)}}
			e.out = append(append([]colT(nil), q.out...), colT{name: name, typ: tNum})
			return e
		}
		l, r = tag(l, c1), tag(r, c2)
	}
	q := &qnode{op: op, src: l, src2: r}
	// result columns: those of the left operand (same set on the right);
	// a column is nullable/mixed if it is on either side
	for _, c := range l.out {
		rc, _ := r.outCol(c.name)
		// (also for intersect/minus: a where above is distributed to both operands)
		if rc.typ != c.typ {
			c.typ = tMix
		}
		c.null = c.null || rc.null
		c.inexact = c.inexact || rc.inexact
		q.out = append(q.out, c)
	}
	return q
}

// genTop draws a complete request: query plus optional sort.
func (g *qgen) genTop(maxDepth int) *topQ {
	d := pickOf(g.t, "depth", []int{1, 2, 2, 3, 3, 3, 4, 4})
	if d > maxDepth {
		d = maxDepth
	}
	if g.diffOK && chance(g.t, "diffcols", 6) {
		if q := g.diffCols(); q != nil {
			return &topQ{q: q}
		}
	}
	tq := &topQ{q: g.gen(d)}
	if rng(g.t, "sort", 0, 4) == 0 {
		names := tq.q.outNames()
		tq.sort = subsetOf(g.t, names, 1, min(2, len(names)), "sortcols")
		tq.reverse = chance(g.t, "reverse", 50)
	}
	return tq
}

// genViews adds 0-2 views (depth <= 2) over the tables.
func genViews(t *rapid.T, d *dbT) {
	n := rng(t, "nviews", 0, 2)
	for i := 0; i < n; i++ {
		g := &qgen{t: t, db: &dbT{tables: d.tables}, fresh: 100 * (i + 1)}
		def := g.gen(rng(t, "viewdepth", 1, 2))
		d.views = append(d.views, &viewT{name: []string{"va", "vb"}[i], def: def})
	}
}

// shadowSumUnderWhere: the tree has a summarize with an output column named
// like a column of its source, below a where that refers to that name
// (directly, or possibly indirectly through an extend/rename in between):
// known finding where-over-summarize-shadow. Call with (q, nil, false).
func shadowSumUnderWhere(q *qnode, refs map[string]bool, relay bool) bool {
	if q == nil {
		return false
	}
	switch q.op {
	case "view":
		return shadowSumUnderWhere(q.viewOf, refs, relay)
	case "where":
		r2 := map[string]bool{}
		for k := range refs {
			r2[k] = true
		}
		q.expr.columns(r2)
		refs = r2
	case "rename", "extend":
		relay = relay || refs != nil
	case "join", "leftjoin", "semijoin", "intersect", "minus":
		// these copy fixed values of one operand to the other as a where
		if refs == nil {
			refs = map[string]bool{}
		}
		relay = true
	case "summarize":
		if refs != nil && q.whole {
			// min/max of a key also returns the record: every source
			// column is an output column named like a source column
			for _, n := range q.src.outNames() {
				if relay || refs[n] {
					return true
				}
			}
		}
		if refs != nil {
			for i, op := range q.sops {
				name := q.scols[i]
				if name == "" {
					name = op
					if q.sons[i] != "" {
						name += "_" + q.sons[i]
					}
				}
				if contains(q.src.outNames(), name) && (relay || refs[name]) {
					return true
				}
			}
		}
	}
	return shadowSumUnderWhere(q.src, refs, relay) || shadowSumUnderWhere(q.src2, refs, relay)
}

// wholeRowFlips: a summarize without by columns that is not the
// whole-record form as written, has a min/max, and sits below a
// project/remove (which may strip its other summaries so that the transformed
// query becomes the whole-record form): known finding
// summarize-wholerow-after-project.
func wholeRowFlips(q *qnode, underProject bool) bool {
	if q == nil {
		return false
	}
	switch q.op {
	case "view":
		return wholeRowFlips(q.viewOf, underProject)
	case "project", "remove":
		underProject = true
	case "summarize":
		if underProject && len(q.cols) == 0 && !q.whole && (contains(q.sops, "min") || contains(q.sops, "max")) {
			return true
		}
	}
	return wholeRowFlips(q.src, underProject) || wholeRowFlips(q.src2, underProject)
}

// hasShadowSummarize: the tree has a summarize with an output column named
// like a (non-by) column of its source.
func hasShadowSummarize(q *qnode) bool {
	if q == nil {
		return false
	}
	switch q.op {
	case "view":
		return hasShadowSummarize(q.viewOf)
	case "summarize":
		for i, op := range q.sops {
			name := q.scols[i]
			if name == "" {
				name = op
				if q.sons[i] != "" {
					name += "_" + q.sons[i]
				}
			}
			if contains(q.src.outNames(), name) {
				return true
			}
		}
	}
	return hasShadowSummarize(q.src) || hasShadowSummarize(q.src2)
}

// wholeRowInside: the tree has a whole-record summarize (min/max of a key
// directly on a table, the result also carries the record) that is not the
// root of the request.
func wholeRowInside(q *qnode, root bool) bool {
	if q == nil {
		return false
	}
	if q.op == "view" {
		return wholeRowInside(q.viewOf, root)
	}
	if q.op == "summarize" && q.whole && !root {
		return true
	}
	return wholeRowInside(q.src, false) || wholeRowInside(q.src2, false)
}

// groupOverIn builds the shape "table where <leading column of a composite
// index> in (2-3 stored values) [and ...]" below a project of / summarize by
// the trailing index columns (grouping that an index could only deliver if the
// leading column were single-valued).
func (g *qgen) groupOverIn() *qnode {
	type cand struct {
		tb *tableT
		ix []string
	}
	var cands []cand
	for _, tb := range g.db.tables {
		if g.only != nil && !g.only[tb.name] {
			continue
		}
		for _, ix := range tb.allIndexes() {
			if len(ix) > 1 {
				cands = append(cands, cand{tb, ix})
			}
		}
	}
	if len(cands) == 0 {
		return g.where(g.leaf())
	}
	c := pickOf(g.t, "goi", cands)
	src := tableNode(c.tb)
	eg := g.exprGen(src.out)
	lead, _ := src.outCol(c.ix[0])
	st := eg.stored(lead.name, rng(g.t, "goi_n", 2, 3))
	if len(st) < 2 {
		return g.where(src)
	}
	args := []*exprT{colExpr(lead)}
	for _, l := range st {
		args = append(args, constExpr(l))
	}
	var e *exprT = &exprT{op: "in", args: args, typ: tBool}
	if chance(g.t, "goi_and", 30) {
		e = &exprT{op: "and", typ: tBool, args: []*exprT{e, eg.boolean(0)}}
	}
	w := &qnode{op: "where", src: src, expr: e, out: src.out}
	rest := c.ix[1:]
	by := rest[:rng(g.t, "goi_by", 1, len(rest))]
	if chance(g.t, "goi_proj", 50) {
		q := &qnode{op: "project", src: w, cols: append([]string(nil), by...)}
		for _, n := range by {
			oc, _ := w.outCol(n)
			q.out = append(q.out, oc)
		}
		return q
	}
	q := &qnode{op: "summarize", src: w, cols: append([]string(nil), by...)}
	q.scols, q.sops, q.sons = []string{""}, []string{"count"}, []string{""}
	if contains(by, "count") || contains(w.outNames(), "count") {
		q.scols[0] = g.newName("c")
	}
	var nums []string
	for _, oc := range w.out {
		if oc.typ == tNum && !contains(by, oc.name) {
			nums = append(nums, oc.name)
		}
	}
	if len(nums) > 0 && chance(g.t, "goi_total", 50) {
		on := pickOf(g.t, "goi_on", nums)
		q.scols = append(q.scols, g.newName("c"))
		q.sops = append(q.sops, "total")
		q.sons = append(q.sons, on)
	}
	q.setSummarizeOut()
	return q
}

// wholeRowUnderWhere: a whole-record summarize (min/max of a key on a table)
// below a where that refers to a column of the record (directly, or possibly
// through an extend/rename/join-like operator in between): the where is moved
// below the summarize (known finding summarize-wholerow-inside, part 3).
func wholeRowUnderWhere(q *qnode, refs map[string]bool, relay bool) bool {
	if q == nil {
		return false
	}
	switch q.op {
	case "view":
		return wholeRowUnderWhere(q.viewOf, refs, relay)
	case "where":
		r2 := map[string]bool{}
		for k := range refs {
			r2[k] = true
		}
		q.expr.columns(r2)
		refs = r2
	case "rename", "extend":
		relay = relay || refs != nil
	case "join", "leftjoin", "semijoin", "intersect", "minus":
		if refs == nil {
			refs = map[string]bool{}
		}
		relay = true
	case "summarize":
		if refs != nil && q.whole {
			for _, n := range q.src.outNames() {
				if relay || refs[n] {
					return true
				}
			}
		}
	}
	return wholeRowUnderWhere(q.src, refs, relay) || wholeRowUnderWhere(q.src2, refs, relay)
}

// diffCols builds `A op B` (union or minus, either order) where A = T remove s
// and B = T where s in ("", ...): the operands have different column sets,
// which the engine accepts (a missing column reads as ""). The model is the
// same request with A extended by s = "" (the extend is silent: evaluated by
// the model, not rendered), so the equal-column semantics of the evaluator
// apply. For minus the extra column is removed again when it is not part of
// the engine's result (header of minus = header of its first operand).
func (g *qgen) diffCols() *qnode {
	type cand struct {
		tb  *tableT
		col colT
	}
	var cands []cand
	for _, tb := range g.db.tables {
		if len(tb.cols) < 2 {
			continue
		}
		for _, c := range tb.cols {
			if c.typ == tStr {
				cands = append(cands, cand{tb, c})
			}
		}
	}
	if len(cands) == 0 {
		return nil
	}
	c := pickOf(g.t, "dc", cands)
	a := tableNode(c.tb)
	rem := &qnode{op: "remove", src: a, cols: []string{c.col.name}}
	for _, oc := range a.out {
		if oc.name != c.col.name {
			rem.out = append(rem.out, oc)
		}
	}
	ext := &qnode{op: "extend", silent: true, src: rem, ecols: []string{c.col.name}, exprs: []*exprT{constExpr(strLits[0])}}
	ext.out = append(append([]colT(nil), rem.out...), colT{name: c.col.name, typ: tStr})
	bsrc := tableNode(c.tb)
	var b *qnode = bsrc
	if k := rng(g.t, "dc_in", 0, 3); k > 0 {
		args := []*exprT{colExpr(c.col), constExpr(strLits[0])}
		for i := 0; i < k; i++ {
			args = append(args, constExpr(pickOf(g.t, "dc_lit", strLits[1:])))
		}
		if chance(g.t, "dc_last", 50) {
			args[1], args[len(args)-1] = args[len(args)-1], args[1]
		}
		b = &qnode{op: "where", src: bsrc, expr: &exprT{op: "in", args: args, typ: tBool}, out: bsrc.out}
	}
	op := pickOf(g.t, "dc_op", []string{"union", "union", "minus"})
	l, r := ext, b
	if chance(g.t, "dc_swap", 50) {
		l, r = b, ext
	}
	q := &qnode{op: op, src: l, src2: r}
	for _, oc := range l.out {
		rc, _ := r.outCol(oc.name)
		if rc.typ != oc.typ {
			oc.typ = tMix
		}
		oc.null = oc.null || rc.null
		q.out = append(q.out, oc)
	}
	if op == "minus" && l == ext {
		// the engine's result has the columns of A only
		p := &qnode{op: "remove", silent: true, src: q, cols: []string{c.col.name}}
		for _, oc := range q.out {
			if oc.name != c.col.name {
				p.out = append(p.out, oc)
			}
		}
		return p
	}
	return q
}

func (q *qnode) hasSilent() bool {
	found := false
	q.walk(func(n *qnode) { found = found || n.silent })
	return found
}
