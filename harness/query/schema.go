// Package query holds the property checks of the query engine
// (C22 optimisation independence, C23 access contracts, C24 update statements).
//
// schema.go: value domains, generated databases (model + real db19 database).
package query

import (
	"fmt"
	"os"
	"sort"
	"strconv"
	"strings"
	"time"

	"github.com/apmckinlay/gsuneido/compile"
	"github.com/apmckinlay/gsuneido/core"
	"github.com/apmckinlay/gsuneido/db19"
	"github.com/apmckinlay/gsuneido/db19/stor"
	_ "github.com/apmckinlay/gsuneido/dbms" // sets db19.MakeSuTran and query.MakeSuTran
	qry "github.com/apmckinlay/gsuneido/dbms/query"
	"pgregory.net/rapid"
	"verifharness/internal/gen"
	"verifharness/internal/rt"
)

// ctype is the static type class of a column / expression.
type ctype uint8

const (
	tNum  ctype = iota // a number, or "" when null
	tStr               // a string (including "")
	tDate              // a date, or "" when null
	tBool              // true/false, or "" when null
	tMix               // anything
	tObj               // object (summarize list), or "" when null
)

func (t ctype) String() string {
	return [...]string{"num", "str", "date", "bool", "mix", "obj"}[t]
}

// colT is a column with its static type.
type colT struct {
	name string
	typ  ctype
	null bool // may hold "" although typ is not tStr/tMix
	// inexact: values may carry 16-digit rounding (derived from an average),
	// so a total/average over them would depend on the order of addition
	inexact bool
}

// mayBeEmpty: the column can hold the empty string.
func (c colT) mayBeEmpty() bool {
	return c.null || c.typ == tStr || c.typ == tMix
}

// lit is a constant: source text and packed value.
type lit struct {
	src    string
	packed string
	typ    ctype
}

func mkLit(src string, typ ctype) lit {
	v := compile.Constant(src)
	return lit{src: src, packed: core.Pack(v.(core.Packable)), typ: typ}
}

var (
	numLits  []lit
	keyLits  []lit
	strLits  []lit
	dateLits []lit
	boolLits []lit
	emptyLit lit
)

func init() {
	for _, s := range []string{"0", "1", "2", "3", "4", "5", "6", "7", "8", "9", "10", "11"} {
		keyLits = append(keyLits, mkLit(s, tNum))
	}
	for _, s := range []string{"0", "1", "2", "3", "-1", "-2", "7", "10", "1.5", "2.25", "-.5", "100", "1000", ".125"} {
		numLits = append(numLits, mkLit(s, tNum))
	}
	for _, s := range []string{`""`, `"a"`, `"b"`, `"ab"`, `"B"`, `"z"`, `"a b"`, `"10"`} {
		strLits = append(strLits, mkLit(s, tStr))
	}
	for _, s := range []string{"#20200101", "#20200102", "#20210315.1230", "#19991231"} {
		dateLits = append(dateLits, mkLit(s, tDate))
	}
	boolLits = []lit{mkLit("true", tBool), mkLit("false", tBool)}
	emptyLit = strLits[0]
}

// poolCol describes one column of the shared column pool. Tables draw their
// columns from the pool so that joins find common columns.
type poolCol struct {
	name string
	typ  ctype
	lits func() []lit
}

var pool = []poolCol{
	{"k", tNum, func() []lit { return keyLits }},
	{"k2", tNum, func() []lit { return keyLits[:4] }},
	{"n1", tNum, func() []lit { return numLits }},
	{"n2", tNum, func() []lit { return numLits[:8] }},
	{"s1", tStr, func() []lit { return strLits }},
	{"s2", tStr, func() []lit { return strLits[:5] }},
	{"d1", tDate, func() []lit { return dateLits }},
	{"m1", tMix, func() []lit { return mixLits() }},
	{"m2", tMix, func() []lit { return mixLits() }},
}

var mixCache []lit

func mixLits() []lit {
	if mixCache == nil {
		mixCache = append(mixCache, strLits[:4]...)
		mixCache = append(mixCache, numLits[:5]...)
		mixCache = append(mixCache, numLits[8])
		mixCache = append(mixCache, dateLits[:2]...)
		mixCache = append(mixCache, boolLits...)
	}
	return mixCache
}

func poolOf(name string) *poolCol {
	for i := range pool {
		if pool[i].name == name {
			return &pool[i]
		}
	}
	return nil
}

// litsFor returns constants suitable for comparing with a column of type t.
func litsFor(t ctype) []lit {
	switch t {
	case tNum:
		return numLits
	case tStr:
		return strLits
	case tDate:
		return dateLits
	case tBool:
		return boolLits
	}
	return mixLits()
}

// tableT is the model of one table.
type tableT struct {
	name    string
	cols    []colT
	keys    [][]string // key(...)
	indexes [][]string // index(...)
	uniques [][]string // index unique(...)
	rows    [][]string // packed values, parallel to cols
}

func (tb *tableT) colNames() []string {
	r := make([]string, len(tb.cols))
	for i, c := range tb.cols {
		r[i] = c.name
	}
	return r
}

func (tb *tableT) colIndex(name string) int {
	for i, c := range tb.cols {
		if c.name == name {
			return i
		}
	}
	return -1
}

// allIndexes returns the column lists of every key and index.
func (tb *tableT) allIndexes() [][]string {
	var r [][]string
	r = append(r, tb.keys...)
	r = append(r, tb.indexes...)
	r = append(r, tb.uniques...)
	return r
}

func (tb *tableT) schema() string {
	var sb strings.Builder
	sb.WriteString(tb.name + " (" + strings.Join(tb.colNames(), ", ") + ")")
	for _, k := range tb.keys {
		sb.WriteString(" key(" + strings.Join(k, ",") + ")")
	}
	for _, k := range tb.indexes {
		sb.WriteString(" index(" + strings.Join(k, ",") + ")")
	}
	for _, k := range tb.uniques {
		sb.WriteString(" index unique(" + strings.Join(k, ",") + ")")
	}
	return sb.String()
}

func tuple(tb *tableT, row []string, cols []string) string {
	var sb strings.Builder
	for _, c := range cols {
		v := row[tb.colIndex(c)]
		sb.WriteString(strconv.Itoa(len(v)))
		sb.WriteByte(':')
		sb.WriteString(v)
	}
	return sb.String()
}

func allEmpty(tb *tableT, row []string, cols []string) bool {
	for _, c := range cols {
		if row[tb.colIndex(c)] != "" {
			return false
		}
	}
	return true
}

// violates reports which constraint rows (as a whole) violate, or "".
// Keys are unique; unique indexes are unique except for entries whose
// columns are all empty (documented for "index unique").
func violates(tb *tableT, rows [][]string) string {
	for _, k := range tb.keys {
		seen := map[string]bool{}
		for _, r := range rows {
			t := tuple(tb, r, k)
			if seen[t] {
				return "key(" + strings.Join(k, ",") + ")"
			}
			seen[t] = true
		}
	}
	for _, k := range tb.uniques {
		seen := map[string]bool{}
		for _, r := range rows {
			if allEmpty(tb, r, k) {
				continue
			}
			t := tuple(tb, r, k)
			if seen[t] {
				return "unique(" + strings.Join(k, ",") + ")"
			}
			seen[t] = true
		}
	}
	return ""
}

// dbT is a generated database: the model and (after build) the real one.
type dbT struct {
	tables []*tableT
	views  []*viewT
	db     *db19.Database
}

type viewT struct {
	name string
	def  *qnode
}

func (d *dbT) table(name string) *tableT {
	for _, tb := range d.tables {
		if tb.name == name {
			return tb
		}
	}
	return nil
}

func (d *dbT) view(name string) *viewT {
	for _, v := range d.views {
		if v.name == name {
			return v
		}
	}
	return nil
}

func unpackStr(p string) string {
	return core.Unpack(p).String()
}

// describe renders schema and data for failure messages and samples.
func (d *dbT) describe() string {
	var sb strings.Builder
	for _, tb := range d.tables {
		sb.WriteString("create " + tb.schema() + "\n")
		for i, r := range tb.rows {
			if i >= 20 {
				sb.WriteString(fmt.Sprintf("    ... %d more rows (%s ... %s)\n", len(tb.rows)-i, recLit(tb, r), recLit(tb, tb.rows[len(tb.rows)-1])))
				break
			}
			sb.WriteString("    " + recLit(tb, r) + "\n")
		}
	}
	for _, v := range d.views {
		sb.WriteString("view " + v.name + " = " + v.def.String() + "\n")
	}
	return sb.String()
}

func recLit(tb *tableT, row []string) string {
	parts := []string{}
	for i, c := range tb.cols {
		if row[i] != "" {
			parts = append(parts, c.name+": "+unpackStr(row[i]))
		}
	}
	return "{ " + strings.Join(parts, ", ") + " }"
}

var tableNames = []string{"ta", "tb", "tc", "td"}

func subsetOf(t *rapid.T, names []string, minN, maxN int, label string) []string {
	if maxN > len(names) {
		maxN = len(names)
	}
	if minN > maxN {
		minN = maxN
	}
	n := rng(t, label+"_n", minN, maxN)
	perm := append([]string(nil), names...)
	for i := 0; i < n && i < len(perm)-1; i++ {
		j := i + uni(t, label, len(perm)-i)
		perm[i], perm[j] = perm[j], perm[i]
	}
	return perm[:n]
}

// uniform draws (rapid's own IntRange/SampledFrom are biased to small values)
func uni(t *rapid.T, label string, n int) int { return gen.Uniform(t, label, n) }

func rng(t *rapid.T, label string, lo, hi int) int {
	if hi <= lo {
		return lo
	}
	return lo + gen.Uniform(t, label, hi-lo+1)
}

func chance(t *rapid.T, label string, pct int) bool { return gen.Chance(t, label, pct) }

func pickOf[T any](t *rapid.T, label string, items []T) T { return gen.Pick(t, label, items) }

func sameSet(a, b []string) bool {
	if len(a) != len(b) {
		return false
	}
	x := append([]string(nil), a...)
	y := append([]string(nil), b...)
	sort.Strings(x)
	sort.Strings(y)
	for i := range x {
		if x[i] != y[i] {
			return false
		}
	}
	return true
}

func hasSet(list [][]string, s []string) bool {
	for _, x := range list {
		if sameSet(x, s) {
			return true
		}
	}
	return false
}

// genTable draws a table: 1-5 pool columns, 1-2 keys (sometimes composite,
// sometimes the empty key), 0-2 indexes, 0-1 unique index, 0-12 rows that
// satisfy the constraints.
func genTable(t *rapid.T, name string, mustHave string) *tableT {
	tb := &tableT{name: name}
	names := []string{}
	for _, p := range pool {
		names = append(names, p.name)
	}
	chosen := subsetOf(t, names, 1, 6, name+"_cols")
	if mustHave != "" && !contains(chosen, mustHave) {
		chosen = append(chosen, mustHave)
	}
	for _, n := range chosen {
		tb.cols = append(tb.cols, colT{name: n, typ: poolOf(n).typ})
	}
	cn := tb.colNames()
	if rng(t, name+"_emptykey", 0, 11) == 0 {
		tb.keys = [][]string{{}}
	} else {
		nkeys := rng(t, name+"_nkeys", 1, 2)
		for i := 0; i < nkeys; i++ {
			k := subsetOf(t, cn, 1, 3, fmt.Sprint(name, "_key", i))
			if len(k) == 3 && chance(t, "shorten", 50) {
				k = k[:1]
			}
			if !hasSet(tb.keys, k) {
				tb.keys = append(tb.keys, k)
			}
		}
	}
	// low-cardinality columns: columns outside every key are often limited to
	// 2-3 values so that equal values repeat under different index prefixes
	inKey := map[string]bool{}
	for _, k := range tb.keys {
		for _, c := range k {
			inKey[c] = true
		}
	}
	domain := map[string][]lit{}
	var lowCard []string
	for _, c := range tb.cols {
		lits := poolOf(c.name).lits()
		if !inKey[c.name] && chance(t, name+"_lowcard", 60) {
			n := rng(t, name+"_ncard", 2, 3)
			var sub []lit
			for i := 0; i < n; i++ {
				sub = append(sub, pickOf(t, name+"_cardval", lits))
			}
			lits = sub
			lowCard = append(lowCard, c.name)
		}
		domain[c.name] = lits
	}
	nidx := rng(t, name+"_nidx", 0, 3)
	for i := 0; i < nidx; i++ {
		var k []string
		if len(lowCard) > 0 && len(cn) > 1 && chance(t, name+"_idxshape", 50) {
			// composite index led by a low-cardinality column: (c,a) or (c,a,b)
			lead := pickOf(t, name+"_idxlead", lowCard)
			k = append([]string{lead}, subsetOf(t, without(cn, []string{lead}), 1, 2, fmt.Sprint(name, "_idxrest", i))...)
		} else {
			k = subsetOf(t, cn, 1, 3, fmt.Sprint(name, "_idx", i))
		}
		if !hasSet(tb.allIndexes(), k) {
			tb.indexes = append(tb.indexes, k)
		}
	}
	if rng(t, name+"_nuniq", 0, 3) == 0 {
		k := subsetOf(t, cn, 1, 2, name+"_uniq")
		if !hasSet(tb.allIndexes(), k) {
			tb.uniques = append(tb.uniques, k)
		}
	}
	nrows := pickOf(t, name+"_nrows", []int{0, 1, 2, 3, 4, 5, 6, 7, 8, 9, 10, 11, 12, 6, 8, 10, 12, 12, 12, 12})
	for i := 0; i < nrows; i++ {
		row := make([]string, len(tb.cols))
		for j, c := range tb.cols {
			row[j] = pickOf(t, "v", domain[c.name]).packed
		}
		if violates(tb, append(tb.rows[:len(tb.rows):len(tb.rows)], row)) == "" {
			tb.rows = append(tb.rows, row)
		}
	}
	return tb
}

// present returns, per column name, the distinct values stored in any table
// (as literals), so that where constants can be drawn from values that match.
func (d *dbT) present() map[string][]lit {
	r := map[string][]lit{}
	seen := map[string]bool{}
	for _, tb := range d.tables {
		for j, c := range tb.cols {
			for _, row := range tb.rows {
				k := c.name + "\x00" + row[j]
				if !seen[k] {
					seen[k] = true
					r[c.name] = append(r[c.name], lit{src: unpackStr(row[j]), packed: row[j], typ: poolOf(c.name).typ})
				}
			}
		}
	}
	return r
}

// leadCols returns the leading columns of the composite indexes and keys.
func (d *dbT) leadCols() []string {
	var r []string
	for _, tb := range d.tables {
		for _, ix := range tb.allIndexes() {
			if len(ix) > 1 && !contains(r, ix[0]) {
				r = append(r, ix[0])
			}
		}
	}
	return r
}

func contains(list []string, s string) bool {
	for _, x := range list {
		if x == s {
			return true
		}
	}
	return false
}

// genDb draws 2-4 tables. The second table always shares a column with the
// first so that joins are possible.
func genDb(t *rapid.T) *dbT {
	d := &dbT{}
	n := rng(t, "ntables", 2, 4)
	for i := 0; i < n; i++ {
		must := ""
		if i == 1 {
			must = pickOf(t, "shared", d.tables[0].colNames())
		}
		d.tables = append(d.tables, genTable(t, tableNames[i], must))
	}
	return d
}

//-------------------------------------------------------------------
// the real database

var sharedDb *db19.Database
var sharedUses int
var sharedDirty bool
var sharedLeft []string // tables/views to drop before the next case

// dbReuse is how many cases share one real database. 1 (every case gets a
// fresh HeapStor database) in the quick tier and when replaying, so a failure
// reproduces from its own draws alone; more in the thorough tier because every
// database leaks its persist workers (8 goroutines).
func dbReuse() int {
	if s := os.Getenv("VERIF_QUERY_DBREUSE"); s != "" {
		if n, err := strconv.Atoi(s); err == nil && n > 0 {
			return n
		}
	}
	if os.Getenv("VERIF_TIER") == "thorough" && !rt.Replaying() {
		return 40
	}
	return 1
}

func newRealDb() *db19.Database {
	st := stor.HeapStor(8192)
	db := db19.CreateDb(st)
	db19.StartConcur(db, 50*time.Millisecond)
	return db
}

// build creates the tables and views in a real db19 database through
// admin requests and insert actions.
func (d *dbT) build() {
	if sharedDb != nil && (sharedDirty || sharedUses >= dbReuse()) {
		sharedDb.Close()
		sharedDb = nil
	}
	if sharedDb == nil {
		sharedDb = newRealDb()
		sharedUses = 0
		sharedLeft = nil
	}
	sharedUses++
	sharedDirty = true // until release
	d.db = sharedDb
	th := &core.Thread{}
	for _, tb := range d.tables {
		qry.DoAdmin(d.db, "create "+tb.schema(), nil)
		sharedLeft = append(sharedLeft, tb.name)
		if len(tb.rows) > 0 {
			ut := d.db.NewUpdateTran()
			for _, r := range tb.rows {
				n := qry.DoAction(th, ut, "insert "+recLit(tb, r)+" into "+tb.name)
				if n != 1 {
					panic("insert returned " + strconv.Itoa(n))
				}
			}
			ut.Commit()
		}
	}
	for _, v := range d.views {
		qry.DoAdmin(d.db, "view "+v.name+" = "+v.def.String(), nil)
		sharedLeft = append(sharedLeft, v.name)
	}
}

// release drops what build created (when the database is shared by
// several cases). A case that fails or panics never gets here, and the
// database is then discarded by the next build.
func (d *dbT) release() {
	if dbReuse() > 1 {
		for i := len(sharedLeft) - 1; i >= 0; i-- {
			qry.DoAdmin(d.db, "drop "+sharedLeft[i], nil)
		}
		sharedLeft = nil
		sharedDirty = false
		return
	}
	sharedDb.Close()
	sharedDb = nil
}
