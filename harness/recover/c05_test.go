package recoverx

// C05: crash recovery restores the latest durable state (fault enumeration).

import (
	"bytes"
	"encoding/base64"
	"encoding/json"
	"fmt"
	"os"
	"path/filepath"
	"runtime"
	"runtime/pprof"
	"sort"
	"strconv"
	"strings"
	"sync"
	"sync/atomic"
	"testing"
	"time"

	"github.com/apmckinlay/gsuneido/db19"
	"github.com/apmckinlay/gsuneido/db19/stor"
	"github.com/apmckinlay/gsuneido/util/cksum"
	"pgregory.net/rapid"
	"verifharness/internal/ev"
	"verifharness/internal/kf"
	"verifharness/internal/rt"
)

const (
	kfNoState = "repair-no-candidate-state" // F6
	kfSigbus  = "repair-scanner-reads-past-eof"
	kfEmpty   = "zero-length-file"
	kfWakeup  = "repair-scanner-lost-wakeup"
	pageSize  = 4096
)

// builtFile is a real database file produced by a lifecycle history, with
// what the harness recorded while writing it.
type builtFile struct {
	Key     string // identifies the file in evidence (sub/shard/case)
	Data    []byte
	States  []stateRec // in file order
	CleanAt []uint64   // prefix lengths that are cleanly closed databases
	Journal []string
	Cnt     map[string]int
	zeroLen []int    // drawn lengths of zero tails
	garbage [][]byte // drawn garbage tails
}

// build runs a generated history on a real file and returns it closed.
func buildFile(t *rapid.T, path, key string, p histParams) (bf *builtFile, err error) {
	var h *hist
	defer func() {
		if e := recover(); e != nil {
			if h != nil && h.db != nil {
				func() { defer func() { recover() }(); h.db.Close() }()
			}
			be, ok := e.(buildError)
			if !ok {
				panic(e)
			}
			err = fmt.Errorf("%s", be.msg)
		}
	}()
	h = newHist(t, path, p)
	h.run()
	h.closeClean()
	data, rerr := os.ReadFile(path)
	if rerr != nil {
		return nil, rerr
	}
	bf = &builtFile{Key: key, Data: data, States: h.states, CleanAt: h.cleanAt, Journal: h.journal, Cnt: h.cnt}
	// the harness's idea of the file format, checked against the real file
	if db19.VerifStateLen != stateLen || db19.VerifMagic1 != magic1 {
		return nil, fmt.Errorf("state record layout changed: len %d", db19.VerifStateLen)
	}
	if !bytes.HasPrefix(data, []byte(dbMagic)) {
		return nil, fmt.Errorf("file does not start with %q", dbMagic)
	}
	for _, s := range bf.States {
		if int(s.Off)+stateLen > len(data) || string(data[s.Off:s.Off+8]) != magic1 ||
			string(data[s.Off+magic2at:s.Off+stateLen]) != magic2 || !cksum.Check(data[s.Off:s.Off+magic2at]) {
			return nil, fmt.Errorf("recorded state offset %d does not hold a state record", s.Off)
		}
	}
	for _, c := range bf.CleanAt {
		if string(data[c-tailSize:c]) != shutdown {
			return nil, fmt.Errorf("no shutdown marker before %d", c)
		}
	}
	if n := countStates(data); n != len(bf.States) {
		var found, recorded []int
		for p := 0; p+stateLen <= len(data); p++ {
			if isStateAt(data, p) {
				found = append(found, p)
			}
		}
		for _, s := range bf.States {
			recorded = append(recorded, int(s.Off))
		}
		return nil, fmt.Errorf("file holds %d state records %v, harness recorded %d %v; clean ends %v\njournal:\n  %s", n, found, len(bf.States), recorded,
			bf.CleanAt, strings.Join(h.journal, "\n  "))
	}
	// the history itself must have left a sound database (otherwise a failure
	// below would not be about recovery)
	var cerr error
	if end := catch(func() { cerr = db19.CheckDatabase(path, true) }); end.kind != "return" || cerr != nil {
		return nil, fmt.Errorf("the cleanly closed history file fails the full check: %v %s %s\njournal tail:\n  %s",
			cerr, end.kind, end.msg, strings.Join(tail(h.journal, 25), "\n  "))
	}
	return bf, nil
}

func isStateAt(img []byte, p int) bool {
	return p >= 0 && p+stateLen <= len(img) && string(img[p:p+8]) == magic1 &&
		string(img[p+magic2at:p+stateLen]) == magic2 && cksum.Check(img[p:p+magic2at])
}

func countStates(data []byte) int {
	n := 0
	for p := 0; p+stateLen <= len(data); p++ {
		if data[p] == magic1[0] && isStateAt(data, p) {
			n++
		}
	}
	return n
}

// tails ---------------------------------------------------------------------

const (
	tailAbsent = iota
	tailZero
	tailGarbage
)

var tailNames = []string{"absent", "zero", "garbage"}

func drawTails(t *rapid.T, bf *builtFile, ngarbage int) {
	for i := 0; i < 5; i++ {
		bf.zeroLen = append(bf.zeroLen, rapid.IntRange(1, 3*pageSize).Draw(t, "zerolen"))
	}
	bf.zeroLen = append(bf.zeroLen, 1, 7, 8, 9, stateLen, stateLen+tailSize, -1) // -1: up to the next page boundary
	for i := 0; i < ngarbage; i++ {
		bf.garbage = append(bf.garbage, drawGarbage(t, bf))
	}
}

func drawGarbage(t *rapid.T, bf *builtFile) []byte {
	var g []byte
	data := bf.Data
	state := func() []byte {
		s := bf.States[uniDraw(t, "gstate", len(bf.States))]
		return bytes.Clone(data[s.Off : int(s.Off)+stateLen])
	}
	fake := func() []byte {
		s := state()
		for {
			i := 8 + uniDraw(t, "gfakepos", magic2at-2-8) // timestamp or offsets, checksum left alone
			s[i] ^= byte(1 + uniDraw(t, "gfakebit", 255))
			if !cksum.Check(s[:magic2at]) {
				return s
			}
		}
	}
	nfrag := 1 + uniDraw(t, "gnfrag", 5)
	for f := 0; f < nfrag; f++ {
		switch uniDraw(t, "gkind", 11) {
		case 0, 1:
			g = append(g, rapid.SliceOfN(rapid.Byte(), 1, 40).Draw(t, "gbytes")...)
		case 2:
			g = append(g, magic1...)
		case 3:
			g = append(g, magic2...)
		case 4: // truncated state record
			g = append(g, state()[:1+uniDraw(t, "gtrunc", stateLen-1)]...)
		case 5: // state-shaped record with a wrong checksum
			g = append(g, fake()...)
		case 6: // copy of an earlier part of the file (btree nodes, records, meta)
			a := uniDraw(t, "gfrom", len(data))
			n := 1 + uniDraw(t, "glen", 300)
			g = append(g, data[a:min(len(data), a+n)]...)
		case 7:
			g = append(g, shutdown...)
		case 8:
			g = append(g, corrupt...)
		case 9:
			g = append(g, make([]byte, 1+uniDraw(t, "gzeros", 24))...)
		case 10: // looks like a clean end: bad state + shutdown marker
			g = append(g, fake()...)
			g = append(g, shutdown...)
		}
	}
	return g
}

// neutralise makes sure that no valid state record lies (partly) in the
// tail: an interrupted write cannot produce one, and it would make "latest
// complete state" ambiguous. State-shaped records with a wrong checksum stay.
func neutralise(img []byte, x int) {
	for p := max(0, x-stateLen+1); p+stateLen <= len(img); p++ {
		for img[p] == magic1[0] && isStateAt(img, p) {
			img[max(x, p+8)] ^= 0x5a
		}
	}
}

func (bf *builtFile) image(x, kind, variant int) []byte {
	img := bytes.Clone(bf.Data[:x])
	switch kind {
	case tailZero:
		n := bf.zeroLen[(x+variant*5)%len(bf.zeroLen)]
		if n < 0 {
			n = pageSize - x%pageSize
		}
		img = append(img, make([]byte, n)...)
	case tailGarbage:
		img = append(img, bf.garbage[(x*31+7+variant*13)%len(bf.garbage)]...)
		neutralise(img, x)
	}
	return img
}

// expectations --------------------------------------------------------------

func strippedLen(img []byte) int {
	n := len(img)
	for n > 0 && img[n-1] == 0 {
		n--
	}
	return n
}

type expect struct {
	hasMagic   bool
	clean      int // index of the state the image cleanly ends in, or -1
	latest     int // index of the latest state completely inside the prefix, or -1
	candidates int // state-shaped records (magic1 ... magic2) Repair's scanner will see
}

func expectations(img []byte, x int, states []stateRec) expect {
	e := expect{clean: -1, latest: -1}
	e.hasMagic = bytes.HasPrefix(img, []byte(dbMagic))
	e.latest = sort.Search(len(states), func(i int) bool { return int(states[i].Off)+stateLen > x }) - 1
	lp := strippedLen(img)
	if lp >= len(dbMagic)+stateLen+tailSize && string(img[lp-tailSize:lp]) == shutdown {
		off := lp - tailSize - stateLen
		if e.latest >= 0 && int(states[e.latest].Off) == off {
			e.clean = e.latest
		}
	}
	for p := 0; p+8 <= lp; p++ {
		if img[p] == magic1[0] && string(img[p:p+8]) == magic1 {
			var m2 [8]byte
			copy(m2[:], img[min(len(img), p+magic2at):min(len(img), p+stateLen)])
			if string(m2[:]) == magic2 {
				e.candidates++
			}
		}
	}
	return e
}

// readsPastEOF: Repair's scanner looks at magic2at.. behind every magic1 in
// the read-only mapping; that faults when it lies in a page wholly behind
// the end of the file.
func readsPastEOF(img []byte) bool {
	lp := strippedLen(img)
	mapped := (len(img) + pageSize - 1) / pageSize * pageSize
	for p := max(0, mapped-stateLen); p+8 <= lp; p++ {
		if string(img[p:p+8]) == magic1 && p+stateLen > mapped {
			return true
		}
	}
	return false
}

// the environment of one run --------------------------------------------------

type failure struct {
	Property string     `json:"property"`
	File     string     `json:"file"`
	X        int        `json:"x"`
	Tail     string     `json:"tail"`
	Why      string     `json:"why"`
	Image    string     `json:"image_base64"`
	States   []stateRec `json:"states"`
	Journal  []string   `json:"journal_tail,omitempty"`
}

type c05env struct {
	t        *testing.T
	rec      *ev.Rec
	imgDir   string
	known    map[string]kf.Entry
	mu       sync.Mutex
	failures []failure
	knownHit map[string]bool
	mapLock  sync.RWMutex
	evals    atomic.Int64
	// alwaysOpen: take the read-write open path on every image (sampled files, replay)
	alwaysOpen bool
}

func newC05env(t *testing.T, rec *ev.Rec, dir string) *c05env {
	e := &c05env{t: t, rec: rec, imgDir: filepath.Join(dir, "img"), known: map[string]kf.Entry{}, knownHit: map[string]bool{}}
	os.MkdirAll(e.imgDir, 0o755)
	os.Chdir(e.imgDir)
	for _, k := range []string{kfNoState, kfSigbus, kfEmpty, kfWakeup} {
		if en, ok := kf.Known("C05", k); ok {
			e.known[k] = en
		}
	}
	return e
}

type evalResult struct {
	labels   []string
	excluded string
	fail     string
}

func openCheck(file string) (db *db19.Database, err error, end ending) {
	end = catch(func() { db, err = db19.OpenDb(file, stor.Update, true) })
	return
}

// eval runs the oracle on one crash image.
func (e *c05env) eval(file string, img []byte, x, kind int, states []stateRec) (res evalResult) {
	lab := func(s string) { res.labels = append(res.labels, s) }
	write := func() bool {
		// always a new inode: truncating one that still has leaked mappings
		// (and possibly a leaked lock) is slow
		os.Remove(file)
		if err := os.WriteFile(file, img, 0o644); err != nil {
			res.fail = "harness: " + err.Error()
			return false
		}
		return true
	}
	if !write() {
		return
	}
	if _, err := os.Stat(file + ".bak"); err != nil {
		os.WriteFile(file+".bak", nil, 0o644) // else RenameBak sleeps 0.3 s retrying the removal
	}
	ex := expectations(img, x, states)
	if len(img) == 0 {
		if _, ok := e.known[kfEmpty]; ok {
			res.excluded = kfEmpty
			return
		}
	}
	// (2) CheckDatabase returns
	var cerr error
	end := catch(func() { cerr = db19.CheckDatabase(file, false) })
	// a Fatal inside OpenDb leaves the (locked) file open: continue on a new inode
	notDb := func(end ending) bool {
		if end.kind != "fatal" || ex.hasMagic || !(strings.Contains(end.msg, "not a valid database file") ||
			strings.Contains(end.msg, "unsupported database version")) {
			return false
		}
		return write()
	}
	switch {
	case notDb(end):
		lab("check_fatal_not_a_database")
	case end.kind != "return":
		res.fail = fmt.Sprintf("CheckDatabase did not return: %s: %s", end.kind, end.msg)
		return
	case cerr == nil && ex.clean < 0:
		res.fail = "CheckDatabase reports no error for an image that does not end in a complete state + shutdown marker"
		return
	case cerr != nil && ex.clean >= 0:
		res.fail = "CheckDatabase reports an error for a cleanly closed prefix: " + cerr.Error()
		return
	}
	// (1) open refuses unless clean. CheckDatabase above already went through
	// OpenDb(read-only) on this image; the read-write OpenDatabase path of
	// the server start is taken for every clean prefix, every 4th offset and
	// (sampled runs) near the boundaries - each open costs a 64 MB mapping.
	oerr := cerr
	if ex.clean >= 0 || x%4 == 1 || e.alwaysOpen {
		var db *db19.Database
		db, oerr, end = openCheck(file)
		switch {
		case notDb(end):
			lab("open_fatal_not_a_database")
		case end.kind != "return":
			res.fail = fmt.Sprintf("OpenDb did not return: %s: %s", end.kind, end.msg)
			return
		case oerr == nil && ex.clean < 0:
			db.Close()
			res.fail = "OpenDb accepts an image that does not end in a complete state + shutdown marker"
			return
		case oerr != nil && ex.clean >= 0:
			res.fail = "OpenDb refuses a cleanly closed prefix: " + oerr.Error()
			return
		}
		if ex.clean >= 0 {
			lab("clean_prefix_opens")
			res.fail = e.contents(db, states[ex.clean], "cleanly closed prefix")
			return
		}
		lab("open_rw_refused")
		if kind == tailZero && !write() { // the read-write open stripped the trailing zeros: restore the image
			return
		}
	}
	lab("open_refused")
	// (3) Repair
	cur := img
	if fi, err := os.Stat(file); err == nil && int(fi.Size()) < len(img) {
		cur = img[:fi.Size()]
	}
	if ex.hasMagic {
		if ex.candidates == 0 {
			lab("no_state_shaped_record")
			if _, ok := e.known[kfNoState]; ok {
				res.excluded = kfNoState
				return
			}
		}
		if readsPastEOF(cur) {
			lab("magic1_before_page_aligned_eof")
			if _, ok := e.known[kfSigbus]; ok {
				res.excluded = kfSigbus
				return
			}
			// without the entry the process dies here with SIGBUS (scanner goroutine);
			// the journal written by run() is the replay artefact
		}
	}
	var msg string
	var rerr error
	end = catch(func() { msg, rerr = db19.Repair(file, oerr) })
	_ = msg
	switch {
	case notDb(end):
		lab("repair_fatal_not_a_database")
		return
	case end.kind != "return":
		res.fail = fmt.Sprintf("Repair did not return: %s: %s (state-shaped records in the image: %d)", end.kind, end.msg, ex.candidates)
		return
	case rerr == nil && ex.latest < 0:
		res.fail = "Repair reports success although no complete state lies inside the prefix: " + msg
		return
	case rerr != nil && ex.latest >= 0:
		res.fail = fmt.Sprintf("Repair failed although the state at %d is complete inside the prefix: %v", states[ex.latest].Off, rerr)
		return
	case rerr != nil:
		lab("repair_reports_failure")
		return
	}
	lab("repair_ok")
	db, rerr, end := openCheck(file)
	if end.kind != "return" || rerr != nil {
		res.fail = fmt.Sprintf("repaired file does not open: %v %s %s", rerr, end.kind, end.msg)
		return
	}
	res.fail = e.contents(db, states[ex.latest], "repaired file")
	return
}

// contents compares the opened database with the model snapshot, runs the
// full check and closes.
func (e *c05env) contents(db *db19.Database, want stateRec, what string) (fail string) {
	defer func() {
		if r := recover(); r != nil {
			fail = fmt.Sprintf("%s: reading it panicked: %v", what, r)
		}
		func() { defer func() { recover() }(); db.Close() }()
	}()
	if got := dumpDb(db, false); got != want.Snap {
		return fmt.Sprintf("%s: contents differ from the model snapshot of the state at offset %d\n--- database\n%s--- model\n%s",
			what, want.Off, got, want.Snap)
	}
	if st := db.GetState(); st.Off != want.Off {
		return fmt.Sprintf("%s: opened state at offset %d, expected %d", what, st.Off, want.Off)
	}
	if err := db.Check(true); err != nil {
		return fmt.Sprintf("%s: full check fails: %v", what, err)
	}
	return ""
}

func (e *c05env) artefact(f failure, name string) string {
	f.Property = "C05"
	p := rt.ReplayOut(name)
	b, _ := json.Marshal(f)
	os.WriteFile(p, b, 0o644)
	return p
}

// enumeration -----------------------------------------------------------------

type imgSpec struct{ x, kind, variant int }

// runningFile / inflight: the journal written before images are evaluated.
type runningFile struct {
	Key     string
	Data    []byte
	States  []stateRec
	CleanAt []uint64
	ZeroLen []int
	Garbage [][]byte
}

type inflight struct {
	Running string `json:"running"`
	File    string `json:"file"`
	X       int    `json:"x"`
	Kind    int    `json:"kind"`
	Variant int    `json:"variant"`
}

func (bf *builtFile) position(x int) string {
	switch {
	case x < len(dbMagic):
		return "x_in_file_header"
	case x < int(bf.States[0].Off):
		return "x_before_first_state"
	}
	for _, c := range bf.CleanAt {
		if x == int(c) {
			return "x_at_clean_end"
		}
		if x > int(c)-tailSize && x < int(c) {
			return "x_in_shutdown_marker"
		}
	}
	i := sort.Search(len(bf.States), func(i int) bool { return int(bf.States[i].Off) > x }) - 1
	off := int(bf.States[i].Off)
	switch {
	case x == off:
		return "x_at_state_start"
	case x < off+stateLen:
		return "x_in_state_record"
	case x == off+stateLen:
		return "x_at_state_end"
	}
	return "x_in_data"
}

// hangLimit: wall-clock limit for one image (normally milliseconds).
var hangLimit = func() time.Duration {
	if d, err := time.ParseDuration(os.Getenv("VERIF_C05_HANGLIMIT")); err == nil && d > 0 { // development aid
		return d
	}
	return 120 * time.Second
}()

// run evaluates the images with nworkers goroutines; leaked mappings are
// released every few hundred images; a supervisor watches for hangs.
func (e *c05env) run(bf *builtFile, specs []imgSpec, nworkers int) {
	restore := quiet()
	defer restore()
	// journal: if the process dies (the code under test can take it down from
	// a goroutine of its own) the file and the images in flight are on disk
	running := rt.ReplayOut("c05_running.json")
	jb, _ := json.Marshal(runningFile{Key: bf.Key, Data: bf.Data, States: bf.States, ZeroLen: bf.zeroLen, Garbage: bf.garbage})
	os.WriteFile(running, jb, 0o644)
	defer os.Remove(running)
	ch := make(chan imgSpec, 256)
	var wg sync.WaitGroup
	for w := 0; w < nworkers; w++ {
		wg.Add(1)
		go func(w int) {
			defer wg.Done()
			gen := 0 // bumped when an evaluation had to be abandoned (it may still hold its file)
			cur := rt.ReplayOut(fmt.Sprintf("c05_inflight_w%d.json", w))
			defer os.Remove(cur)
			timer := time.NewTimer(time.Hour)
			defer timer.Stop()
			for sp := range ch {
				sp := sp
				img := bf.image(sp.x, sp.kind, sp.variant)
				os.WriteFile(cur, fmt.Appendf(nil, `{"property":"C05","running":"c05_running.json","file":%q,"x":%d,"kind":%d,"variant":%d}`,
					bf.Key, sp.x, sp.kind, sp.variant), 0o644)
				file := filepath.Join(e.imgDir, fmt.Sprintf("w%d_%d.db", w, gen))
				// the evaluation runs in a goroutine of its own so that one
				// that never returns can be examined and left behind
				out := make(chan evalResult, 1)
				e.mapLock.RLock()
				go func() {
					defer ownGoroutine()()
					out <- e.eval(file, img, sp.x, sp.kind, bf.States)
				}()
				timer.Reset(hangLimit)
				var res evalResult
				select {
				case res = <-out:
				case <-timer.C:
					res = e.hang(bf, sp, img)
					gen++
				}
				e.mapLock.RUnlock()
				e.record(bf, sp, img, res)
				if e.evals.Add(1)%300 == 0 {
					e.mapLock.Lock()
					unmapUnder(e.imgDir)
					e.mapLock.Unlock()
				}
			}
		}(w)
	}
	for _, sp := range specs {
		ch <- sp
	}
	close(ch)
	wg.Wait()
	e.mapLock.Lock()
	unmapUnder(e.imgDir)
	e.mapLock.Unlock()
}

// lostWakeup recognises, in a dump of all goroutine stacks, a Repair that can
// never return: its caller is parked in scanner.getUpTo (sync.Cond.Wait) and
// the scanner goroutine it started (the only one that would signal) is gone.
func lostWakeup(stacks string) bool {
	blocks := strings.Split(stacks, "\n\n")
	for _, b := range blocks {
		if !strings.Contains(b, "db19.(*scanner).getUpTo") || !strings.Contains(b, "[sync.Cond.Wait") {
			continue
		}
		var id int
		if _, err := fmt.Sscanf(b, "goroutine %d ", &id); err != nil {
			continue
		}
		alive := false
		for _, o := range blocks {
			if strings.Contains(o, "db19.(*scanner).scanner(") && strings.Contains(o, fmt.Sprintf("in goroutine %d\n", id)) {
				alive = true
			}
		}
		// (no test of the wait time in the header: the runtime only updates it at a GC)
		if !alive {
			return true
		}
	}
	return false
}

// hang: an image did not finish within the (generous) limit. All goroutine
// stacks are taken first. If they prove that the evaluation can never finish
// (lostWakeup) that is a violation by itself - or, with the known-findings
// entry, an excluded case: the stuck goroutine is left behind and the
// enumeration goes on. Otherwise the image is tried once more; only a
// reproduced hang is a violation, else the run is inconclusive (and cannot
// continue: something of unknown state is still running).
func (e *c05env) hang(bf *builtFile, sp imgSpec, img []byte) (res evalResult) {
	var sb bytes.Buffer
	pprof.Lookup("goroutine").WriteTo(&sb, 2)
	stacks := sb.String()
	fmt.Fprintf(os.Stderr, "VERIF-HANG property=C05 image %s x=%d tail=%s: no result within %v; goroutines:\n%s\n", bf.Key, sp.x, tailNames[sp.kind], hangLimit, stacks)
	if d := os.Getenv("VERIF_C05_HANGDUMP"); d != "" { // development aid: keep the stacks outside the driver's scratch dir
		os.WriteFile(filepath.Join(d, fmt.Sprintf("hang_%d_x%d_%s.txt", os.Getpid(), sp.x, tailNames[sp.kind])), []byte(stacks), 0o644)
	}
	if lostWakeup(stacks) {
		res.labels = []string{"repair_never_returns_lost_wakeup"}
		if _, ok := e.known[kfWakeup]; ok {
			res.excluded = kfWakeup
			return res
		}
		os.WriteFile(rt.ReplayOut(fmt.Sprintf("c05_hang_goroutines_x%d_%s.txt", sp.x, tailNames[sp.kind])), []byte(stacks), 0o644)
		res.fail = "Repair never returns: the caller waits in scanner.getUpTo (sync.Cond.Wait) and its scanner goroutine has exited " +
			"(not deterministic: the stacks are in c05_hang_goroutines_*.txt next to this file)"
		return res
	}
	f := failure{File: bf.Key, X: sp.x, Tail: tailNames[sp.kind], Why: "no result within " + hangLimit.String(),
		Image: base64.StdEncoding.EncodeToString(img), States: bf.States}
	p := e.artefact(f, "c05_hang.json")
	again := make(chan evalResult, 1)
	go func() {
		defer ownGoroutine()()
		again <- e.eval(filepath.Join(e.imgDir, "hang.db"), img, sp.x, sp.kind, bf.States)
	}()
	os.Stdout = os.Stderr
	select {
	case <-again:
		fmt.Fprintf(os.Stderr, "VERIF-TIMEOUT property=C05 image %s x=%d tail=%s exceeded %v once, not reproduced\n", bf.Key, sp.x, tailNames[sp.kind], hangLimit)
		os.Remove(p)
		e.rec.Write()
		os.Exit(3)
	case <-time.After(hangLimit):
		e.rec.Violation()
		fmt.Fprintf(os.Stderr, "VERIF-FAIL property=C05 sub=hang replay=%s\n--- FAIL: hang reproduced on image %s x=%d tail=%s\n", p, bf.Key, sp.x, tailNames[sp.kind])
		e.rec.Write()
		os.Exit(1)
	}
	return res
}

func (e *c05env) record(bf *builtFile, sp imgSpec, img []byte, res evalResult) {
	rec := e.rec
	pos := bf.position(sp.x)
	nt := sp.x >= int(bf.States[0].Off)
	rec.Case(nt, fmt.Sprintf("%s|%d|%s%d", bf.Key, sp.x, tailNames[sp.kind], sp.variant))
	rec.Label(pos)
	rec.Label("tail_" + tailNames[sp.kind])
	outcome := "violation"
	if res.fail == "" {
		outcome = strings.Join(res.labels, "+")
		if res.excluded != "" {
			outcome += "+excluded"
		}
	}
	for _, l := range res.labels {
		rec.Label("outcome_" + l)
	}
	if res.excluded != "" {
		rec.Excluded(res.excluded)
		e.mu.Lock()
		e.knownHit[res.excluded] = true
		e.mu.Unlock()
	}
	cls := pos + "/" + tailNames[sp.kind] + "/" + outcome
	if rec.WantSample(cls) {
		rec.Sample(cls, map[string]any{"file": bf.Key, "x": sp.x, "file_len": len(bf.Data), "image_len": len(img)})
	}
	if res.fail != "" {
		rec.Label("outcome_violation")
		e.mu.Lock()
		if len(e.failures) < 8 {
			e.failures = append(e.failures, failure{File: bf.Key, X: sp.x, Tail: tailNames[sp.kind], Why: res.fail,
				Image: base64.StdEncoding.EncodeToString(img), States: bf.States, Journal: tail(bf.Journal, 30)})
		}
		e.mu.Unlock()
	}
}

// report prints known findings and reports the collected violations.
func (e *c05env) report() {
	for k := range e.knownHit {
		e.rec.Known(e.known[k].What)
	}
	for i, f := range e.failures {
		p := e.artefact(f, fmt.Sprintf("c05_%s_x%d_%s_%d.json", strings.ReplaceAll(f.File, "/", "-"), f.X, f.Tail, i))
		rt.Fail(e.t, e.rec, "image", p, fmt.Sprintf("file %s crash point %d tail %s: %s", f.File, f.X, f.Tail, f.Why))
	}
}

func allOffsets(bf *builtFile, variants int) []imgSpec {
	var specs []imgSpec
	for x := 0; x <= len(bf.Data); x++ {
		for kind := tailAbsent; kind <= tailGarbage; kind++ {
			specs = append(specs, imgSpec{x, kind, 0})
		}
	}
	return specs
}

// sampledOffsets: every state boundary +-40 bytes, clean ends, file start
// and end, and drawn offsets inside the data between states.
func sampledOffsets(t *rapid.T, bf *builtFile) []imgSpec {
	xs := map[int]bool{}
	add := func(lo, hi int) {
		for x := max(0, lo); x <= min(len(bf.Data), hi); x++ {
			xs[x] = true
		}
	}
	add(0, 24)
	add(len(bf.Data)-60, len(bf.Data))
	near := map[int]bool{}
	for _, s := range bf.States {
		add(int(s.Off)-40, int(s.Off)+stateLen+40)
		for d := -2; d <= 2; d++ {
			near[int(s.Off)+d], near[int(s.Off)+stateLen+d], near[int(s.Off)+stateLen+tailSize+d] = true, true, true
		}
	}
	for p := pageSize; p <= len(bf.Data); p += pageSize {
		add(p-4, p+1)
	}
	for i := 0; i < 150; i++ {
		xs[rapid.IntRange(0, len(bf.Data)).Draw(t, "x")] = true
	}
	sorted := make([]int, 0, len(xs))
	for x := range xs {
		sorted = append(sorted, x)
	}
	sort.Ints(sorted)
	var specs []imgSpec
	for _, x := range sorted {
		specs = append(specs, imgSpec{x, tailAbsent, 0}, imgSpec{x, tailZero, 0}, imgSpec{x, tailGarbage, 0})
		if near[x] {
			specs = append(specs, imgSpec{x, tailZero, 1}, imgSpec{x, tailGarbage, 1})
		}
	}
	return specs
}

func TestC05(t *testing.T) {
	rec := ev.New("C05", "crash images = prefix file[:X] of a real database file written by a generated lifecycle history (tables with key/index/unique/foreign-key indexes, multi-action transactions, aborts, alter/rename/drop, views, explicit persists, clean close/reopen) + tail in {absent, zero-filled, garbage (random bytes, magic markers, truncated and wrong-checksum state records, copies of earlier file content, shutdown/corrupt markers)}; evaluations = crash images tried; non-trivial/distinct = distinct (file, X, tail) with X inside or after the first state record")
	rec.Level = "fault_enumeration"
	rec.Assumptions = []string{
		"crash model of the property: prefix + tail; torn pages in the middle of the file are outside it",
		"garbage tails never contain or complete a valid (checksummed) state record; state-shaped records with a wrong checksum are included",
		"expected contents come from the harness's own model snapshot taken at each persist / clean close, keyed by the state offset returned by Persist()",
		"file layout is not reproducible from the seed (persist workers allocate concurrently): replay artefacts carry the image itself",
	}
	defer rec.Write()
	dir, cleanup := scratchDir(t, "c05")
	defer cleanup()
	installExitHook()
	defer ownGoroutine()()
	e := newC05env(t, rec, dir)

	if p := os.Getenv("VERIF_REPLAY"); p != "" {
		e.replay(p)
		return
	}

	// quick: one 4-8 KB file exhaustively + 3 larger files sampled around the
	// state boundaries; with several quick shards, shard 0 does the exhaustive
	// file and the others share the sampled ones. thorough: every shard
	// enumerates its own 10-22 KB file exhaustively + 1 large sampled file.
	shard, nshards := ev.Shard()
	workers := 4
	nExh, nSamp := 1, 3
	share := "" // path of the exhaustive file shared between quick shards
	exhaustive := histParams{minStates: 6, minSize: 4096, maxSize: 8000, maxOps: 2000, persistW: 12, reopen: true, maxRows: 12}
	sampled := histParams{minStates: 10, minSize: 12000, maxSize: 20000, maxOps: 4000, persistW: 8, reopen: true, longVals: true, maxRows: 25}
	switch {
	case ev.Thorough():
		workers = 1
		nSamp = 1
		size := uint64(10000 + 600*(shard%16))
		exhaustive = histParams{minStates: 12, minSize: size, maxSize: size + 3000, maxOps: 20000, persistW: 10, reopen: true, longVals: true, maxRows: 40}
		sampled.minSize, sampled.maxSize = 40000, 55000
		sampled.maxOps = 40000
	case nshards > 1:
		// several quick processes: shard 0 builds the exhaustive file and
		// publishes it next to the shard directories, every shard enumerates
		// the offsets i with i % nshards == shard (separate address spaces:
		// mmap / munmap do not scale inside one process); the sampled files
		// go to shards 1..3
		workers = 2
		share = filepath.Join(filepath.Dir(filepath.Clean(os.Getenv("VERIF_SCRATCH"))), fmt.Sprintf("c05_exhaustive_seed%d.json", ev.Seed()))
		if os.Getenv("VERIF_SCRATCH") == "" {
			share = ""
		}
		nSamp = 0
		if shard >= 1 && shard <= 3 {
			nSamp = 1
		}
		if shard > 0 && share != "" {
			nExh = 0
		}
	}
	if n, _ := strconv.Atoi(os.Getenv("VERIF_C05_WORKERS")); n > 0 {
		workers = n
	}
	// munmap / truncate of the 64 MB mappings pay for TLB shootdowns on every
	// CPU the process runs on: keep the footprint small
	defer runtime.GOMAXPROCS(runtime.GOMAXPROCS(workers + 2))
	buildFailed := false
	ncase := 0
	var exhaustiveLens []int
	prop := func(sub string, p histParams, all bool) func(*rapid.T) {
		return func(t *rapid.T) {
			ncase++
			key := fmt.Sprintf("%s/seed%d/shard%dof%d/%d", sub, ev.Seed(), shard, nshards, ncase)
			if all && share != "" {
				key = fmt.Sprintf("%s/seed%d/shared/%d", sub, ev.Seed(), ncase)
			}
			bf, err := buildFile(t, filepath.Join(dir, "build.db"), key, p)
			unmapUnder(dir)
			if err != nil {
				if discard(rec, "C05", err.Error()) {
					t.Skip("history discarded")
				}
				buildFailed = true
				t.Fatalf("history build: %v", err)
			}
			if buildFailed || rt.Replaying() {
				return // shrinking a build problem: do not enumerate
			}
			drawTails(t, bf, 64)
			var specs []imgSpec
			if all {
				specs = allOffsets(bf, 1)
				exhaustiveLens = append(exhaustiveLens, len(bf.Data))
				if share != "" {
					jb, _ := json.Marshal(runningFile{Key: bf.Key, Data: bf.Data, States: bf.States, CleanAt: bf.CleanAt,
						ZeroLen: bf.zeroLen, Garbage: bf.garbage})
					os.WriteFile(share+".tmp", jb, 0o644)
					os.Rename(share+".tmp", share)
					specs = slice(specs, shard, nshards)
				}
			} else {
				specs = sampledOffsets(t, bf)
			}
			for k, v := range bf.Cnt {
				rec.LabelN("history_"+k, v)
			}
			rec.LabelN("history_states", len(bf.States))
			rec.LabelN("history_clean_closes", len(bf.CleanAt))
			rec.Label("files_" + sub)
			e.alwaysOpen = !all
			if n, _ := strconv.Atoi(os.Getenv("VERIF_C05_LIMIT")); n > 0 && n < len(specs) { // development aid: last n
				specs = specs[len(specs)-n:]
			} else if n < 0 && -n < len(specs) { // first n
				specs = specs[:-n]
			}
			e.run(bf, specs, workers)
		}
	}
	if nExh > 0 {
		rt.Check(t, rec, "exhaustive", nExh, nExh, prop("exhaustive", exhaustive, true))
		rec.Set("exhaustive", len(exhaustiveLens) > 0 && !buildFailed) // every offset x 3 tails of these files
		rec.Set("exhaustive_files", len(exhaustiveLens))
		rec.Set("exhaustive_file_bytes", sum(exhaustiveLens))
	}
	if nExh == 0 && share != "" {
		// take this shard's slice of the file published by shard 0
		var rf runningFile
		for waited := 0; ; waited++ {
			if b, err := os.ReadFile(share); err == nil && json.Unmarshal(b, &rf) == nil && len(rf.Data) > 0 {
				break
			}
			if waited > 3000 { // 5 minutes
				fmt.Println("VERIF-TIMEOUT property=C05 the exhaustive file of shard 0 did not appear")
				t.Fatalf("no exhaustive file from shard 0")
			}
			time.Sleep(100 * time.Millisecond)
		}
		bf := &builtFile{Key: rf.Key, Data: rf.Data, States: rf.States, CleanAt: rf.CleanAt, zeroLen: rf.ZeroLen, garbage: rf.Garbage}
		e.alwaysOpen = false
		e.run(bf, slice(allOffsets(bf, 1), shard, nshards), workers)
		rec.Set("exhaustive", true)
	}
	if nSamp > 0 {
		rt.Check(t, rec, "sampled", nSamp, nSamp, prop("sampled", sampled, false))
	}
	e.report()
}

// slice returns the specs with index i % n == k.
func slice(specs []imgSpec, k, n int) []imgSpec {
	var r []imgSpec
	for i, sp := range specs {
		if i%n == k {
			r = append(r, sp)
		}
	}
	return r
}

func sum(a []int) int {
	n := 0
	for _, x := range a {
		n += x
	}
	return n
}

// replay re-runs the oracle on a stored crash image.
func (e *c05env) replay(path string) {
	b, err := os.ReadFile(path)
	if err != nil {
		e.t.Fatalf("replay: %v", err)
	}
	var f failure
	if err := json.Unmarshal(b, &f); err != nil {
		e.t.Fatalf("replay: %v", err)
	}
	var inf inflight
	if json.Unmarshal(b, &inf); inf.Running != "" { // journal entry of a run that died
		var rf runningFile
		for _, cand := range []string{filepath.Join(filepath.Dir(path), "C05__"+inf.Running), filepath.Join(filepath.Dir(path), inf.Running)} {
			if rb, err := os.ReadFile(cand); err == nil && json.Unmarshal(rb, &rf) == nil && rf.Key == inf.File {
				break
			}
		}
		if rf.Key != inf.File {
			e.t.Fatalf("replay: the journal %s of the run is not next to %s", inf.Running, path)
		}
		bf := &builtFile{Key: rf.Key, Data: rf.Data, States: rf.States, zeroLen: rf.ZeroLen, garbage: rf.Garbage}
		f = failure{File: rf.Key, X: inf.X, Tail: tailNames[inf.Kind], States: rf.States,
			Image: base64.StdEncoding.EncodeToString(bf.image(inf.X, inf.Kind, inf.Variant))}
	}
	img, err := base64.StdEncoding.DecodeString(f.Image)
	if err != nil {
		e.t.Fatalf("replay: %v", err)
	}
	restore := quiet()
	e.alwaysOpen = true
	res := e.eval(filepath.Join(e.imgDir, "replay.db"), img, f.X, tailZero, f.States)
	restore()
	e.rec.Case(true, "replay")
	if res.excluded != "" {
		e.rec.Excluded(res.excluded)
		e.rec.Known(e.known[res.excluded].What)
		return
	}
	if res.fail != "" {
		rt.Fail(e.t, e.rec, "image", path, fmt.Sprintf("file %s crash point %d tail %s: %s", f.File, f.X, f.Tail, res.fail))
	}
}
