package recoverx

// C20: dump, load and compact preserve the logical database; loading refuses
// duplicate keys / duplicate non-empty unique values, accepts duplicates in
// plain indexes and dangling foreign key data.

import (
	"bytes"
	"encoding/binary"
	"fmt"
	"io"
	"os"
	"path/filepath"
	"regexp"
	"slices"
	"strconv"
	"strings"
	"testing"

	"github.com/apmckinlay/gsuneido/core"
	"github.com/apmckinlay/gsuneido/db19"
	"github.com/apmckinlay/gsuneido/db19/stor"
	"github.com/apmckinlay/gsuneido/db19/tools"
	"github.com/apmckinlay/gsuneido/dbms/query"
	"pgregory.net/rapid"
	"verifharness/internal/ev"
	"verifharness/internal/rt"
)

// a parsed dump file ----------------------------------------------------------

type dumpSection struct {
	schema string // text after "====== " without the newline
	recs   [][]byte
}

type dumpFile struct {
	version  string
	sections []*dumpSection
}

func parseDump(b []byte) (*dumpFile, error) {
	i := bytes.IndexByte(b, '\n')
	if i < 0 {
		return nil, fmt.Errorf("no version line")
	}
	d := &dumpFile{version: string(b[:i+1])}
	b = b[i+1:]
	for len(b) > 0 {
		if !bytes.HasPrefix(b, []byte("====== ")) {
			return nil, fmt.Errorf("section header expected")
		}
		i := bytes.IndexByte(b, '\n')
		sec := &dumpSection{schema: string(b[7:i])}
		b = b[i+1:]
		for {
			if len(b) < 4 {
				return nil, fmt.Errorf("truncated record length")
			}
			n := int(binary.BigEndian.Uint32(b))
			b = b[4:]
			if n == 0 {
				break
			}
			if len(b) < n {
				return nil, fmt.Errorf("truncated record")
			}
			sec.recs = append(sec.recs, b[:n])
			b = b[n:]
		}
		d.sections = append(d.sections, sec)
	}
	return d, nil
}

func (d *dumpFile) bytes() []byte {
	var bb bytes.Buffer
	bb.WriteString(d.version)
	for _, s := range d.sections {
		bb.WriteString("====== " + s.schema + "\n")
		for _, r := range s.recs {
			binary.Write(&bb, binary.BigEndian, uint32(len(r)))
			bb.Write(r)
		}
		binary.Write(&bb, binary.BigEndian, uint32(0))
	}
	return bb.Bytes()
}

func (d *dumpFile) clone() *dumpFile {
	c := &dumpFile{version: d.version}
	for _, s := range d.sections {
		c.sections = append(c.sections, &dumpSection{schema: s.schema, recs: slices.Clone(s.recs)})
	}
	return c
}

func (d *dumpFile) table(name string) *dumpSection {
	for _, s := range d.sections {
		if strings.HasPrefix(s.schema, name+" ") {
			return s
		}
	}
	return nil
}

// remake builds a copy of rec (dumped with columns cols) with some fields replaced.
func remake(rec []byte, cols []string, repl map[string]string) []byte {
	r := core.Record(string(rec))
	var rb core.RecordBuilder
	for i, c := range cols {
		if v, ok := repl[c]; ok {
			rb.AddRaw(v)
		} else {
			rb.AddRaw(r.GetRaw(i))
		}
	}
	return []byte(rb.Trim().Build())
}

func packInt(n int) string { return core.Pack(core.IntVal(n).(core.Packable)) }

// insertOrdered puts rec into the section at its place in the order of the
// section's first index (load relies on the dump being sorted by it).
func insertOrdered(sec *dumpSection, rec []byte) {
	sch := query.NewAdminParser(sec.schema).Schema()
	var flds []int
	for _, c := range sch.Indexes[0].Columns {
		flds = append(flds, slices.Index(sch.Columns, c))
	}
	tuple := func(r []byte) []string {
		t := make([]string, len(flds))
		for i, f := range flds {
			t[i] = core.Record(string(r)).GetRaw(f)
		}
		return t
	}
	nt := tuple(rec)
	at := len(sec.recs)
	for i, r := range sec.recs {
		if slicesCompare(tuple(r), nt) > 0 {
			at = i
			break
		}
	}
	sec.recs = slices.Insert(sec.recs, at, rec)
}

// freshKeys gives the copy of a record fresh values in every key except the
// one named keep ("" = all fresh).
func freshKeys(mt *mTable, fresh int, keep string) map[string]string {
	repl := map[string]string{}
	for _, ix := range mt.idxs {
		if ix.mode != 'k' || strings.Join(ix.cols, ",") == keep {
			continue
		}
		switch last := ix.cols[len(ix.cols)-1]; last {
		case "k":
			repl["k"] = packInt(fresh)
		case "q":
			repl["q"] = packInt(900000 + fresh)
		case "s":
			repl["s"] = core.Pack(core.SuStr("zzfresh" + strconv.Itoa(fresh)))
		}
	}
	return repl
}

// the check -------------------------------------------------------------------

var fkHereRx = regexp.MustCompile(`fkhere\[[^\]]*\]`)

// tableSections splits a canonical dump into per-table sections with the
// incoming foreign key list blanked (a table loaded on its own has none).
func tableSections(dump string) map[string]string {
	res := map[string]string{}
	cur := ""
	for _, line := range strings.SplitAfter(dump, "\n") {
		if strings.HasPrefix(line, "table ") {
			cur = strings.Fields(line)[1]
			line = fkHereRx.ReplaceAllString(line, "fkhere[]")
		} else if !strings.HasPrefix(line, " ") {
			cur = ""
		}
		if cur != "" {
			res[cur] += line
		}
	}
	return res
}

func openDump(file string, squeeze bool, fullCheck bool) (dump string, err error) {
	var db *db19.Database
	end := catch(func() { db, err = db19.OpenDb(file, stor.Read, true) })
	if end.kind != "return" {
		return "", fmt.Errorf("open %s: %s %s", file, end.kind, end.msg)
	}
	if err != nil {
		return "", fmt.Errorf("open %s: %v", file, err)
	}
	defer db.Close()
	end = catch(func() {
		dump = dumpDb(db, squeeze)
		if fullCheck {
			if e := db.Check(true); e != nil {
				err = fmt.Errorf("full check of %s: %v", file, e)
			}
		}
	})
	if end.kind != "return" {
		return "", fmt.Errorf("reading %s: %s %s", file, end.kind, end.msg)
	}
	return dump, err
}

func copyFile(from, to string) error {
	src, err := os.Open(from)
	if err != nil {
		return err
	}
	defer src.Close()
	dst, err := os.Create(to)
	if err != nil {
		return err
	}
	defer dst.Close()
	_, err = io.Copy(dst, src)
	return err
}

func diffHint(got, want string) string {
	g, w := strings.Split(got, "\n"), strings.Split(want, "\n")
	for i := 0; i < len(g) || i < len(w); i++ {
		var a, b string
		if i < len(g) {
			a = g[i]
		}
		if i < len(w) {
			b = w[i]
		}
		if a != b {
			return fmt.Sprintf("first difference at line %d:\n  got:  %.300s\n  want: %.300s", i+1, a, b)
		}
	}
	return "no difference"
}

func TestC20(t *testing.T) {
	rec := ev.New("C20", "databases written by rapid-generated lifecycle histories on real files (up to 4 tables with key / index / unique / composite / foreign-key indexes, inserts, updates, deletes incl. cascades, aborts, dropped and renamed columns, renamed tables, views, empty trailing fields, values of 255/256/3000 bytes, sometimes one 66 KB+ record, persists and clean reopen); each is dumped, loaded, dumped per table and loaded per table, compacted, and 4 mutated dumps are loaded. Non-trivial: a dropped column or a foreign key and >= 2 tables with rows; distinct = by model snapshot")
	rec.Assumptions = []string{
		"equivalence normalises what the tools are documented to change: deleted '-' columns squeezed, index order, trailing empty fields",
		"expected contents are the harness's own model of the history, not the source database's dump",
	}
	defer rec.Write()
	dir, cleanup := scratchDir(t, "c20")
	defer cleanup()
	installExitHook()
	defer ownGoroutine()()
	path := func(n string) string { return filepath.Join(dir, n) }
	// system.RenameBak retries (with sleeps, ~0.3 s) the removal of a missing
	// <target>.bak and the rename of a missing <target>: give it both
	prep := func(n string) string {
		os.WriteFile(path(n), nil, 0o644)
		os.WriteFile(path(n)+".bak", nil, 0o644)
		return path(n)
	}
	ncase := 0

	rt.Check(t, rec, "roundtrip", 120, 1200, func(t *rapid.T) {
		ncase++
		if ncase%20 == 0 {
			unmapUnder(dir)
		}
		if m, _ := filepath.Glob(path("*")); len(m) > 0 {
			for _, f := range m {
				os.Remove(f)
			}
		}
		p := histParams{minStates: 1 << 30, maxOps: 15 + uniDraw(t, "nops", 90), persistW: 5, reopen: true,
			bigRec: uniDraw(t, "bigrec", 100) < 12, longVals: true, maxRows: 30}
		var h *hist
		func() {
			defer func() {
				if e := recover(); e != nil {
					if h != nil && h.db != nil {
						func() { defer func() { recover() }(); h.db.Close() }()
					}
					if be, ok := e.(buildError); ok {
						if discard(rec, "C20", be.msg) {
							t.Skip("history discarded")
						}
						t.Fatalf("history build: %s", be.msg)
					}
					panic(e)
				}
			}()
			h = newHist(t, path("orig.db"), p)
			h.run()
		}()
		m := h.m
		want := m.canon(true)
		closed := false
		defer func() {
			if !closed {
				func() { defer func() { recover() }(); h.db.Close() }()
			}
		}()
		if got := dumpDb(h.db, true); got != want {
			msg := "database differs from the model before dumping: " + diffHint(got, want)
			if discard(rec, "C20", msg) {
				t.Skip("history discarded")
			}
			t.Fatalf("history build: %s", msg)
		}

		// --- dump of the open database, per table dumps
		var err error
		var nt, nv int
		if end := catch(func() { nt, nv, err = tools.Dump(h.db, prep("d.su"), "") }); end.kind != "return" || err != nil {
			t.Fatalf("Dump failed: %v %s %s", err, end.kind, end.msg)
		}
		if nt != len(m.tables) || nv != len(m.views) {
			t.Fatalf("Dump reports %d tables %d views, model has %d and %d", nt, nv, len(m.tables), len(m.views))
		}
		for _, name := range m.tableNames() {
			var n int
			if end := catch(func() { n, err = tools.DumpDbTable(h.db, name, prep(name+".su"), "") }); end.kind != "return" || err != nil {
				t.Fatalf("DumpDbTable %s failed: %v %s %s", name, err, end.kind, end.msg)
			}
			if n != len(m.tables[name].rows) {
				t.Fatalf("DumpDbTable %s reports %d records, model has %d", name, n, len(m.tables[name].rows))
			}
		}
		if h.db.IsCorrupted() {
			t.Fatalf("dump marked the database as corrupt")
		}
		// which tables will Compact build in an order different from the schema's?
		multiKey, notFirst, notFirstRows := 0, 0, 0
		func() {
			rtr := h.db.NewReadTran()
			for _, name := range m.tableNames() {
				if m.tables[name].nkeys() >= 2 {
					multiKey++
				}
				if ti := rtr.GetInfo(name); ti != nil && ti.SmallestKeyIndex(rtr.GetSchema(name).Indexes) != 0 {
					notFirst++
					if len(m.tables[name].rows) >= 2 {
						notFirstRows++
					}
				}
			}
		}()
		h.db.Close()
		closed = true

		// --- load the whole dump
		if end := catch(func() { nt, nv, err = tools.LoadDatabase(path("d.su"), prep("loaded.db"), "", "") }); end.kind != "return" || err != nil {
			t.Fatalf("LoadDatabase of an unmodified dump failed: %v %s %s", err, end.kind, end.msg)
		}
		if nt != len(m.tables) || nv != len(m.views) {
			t.Fatalf("LoadDatabase reports %d tables %d views, model has %d and %d", nt, nv, len(m.tables), len(m.views))
		}
		got, err := openDump(path("loaded.db"), true, true)
		if err != nil && got == "" {
			t.Fatalf("loaded database: %v", err)
		}
		if got != want {
			t.Fatalf("loaded database differs from the original: %s\n--- loaded\n%.3000s--- model\n%.3000s", diffHint(got, want), got, want)
		}
		if err != nil {
			t.Fatalf("loaded database: %v", err)
		}

		// --- compact a copy
		if err := copyFile(path("orig.db"), path("comp.db")); err != nil {
			t.Fatalf("harness: %v", err)
		}
		os.WriteFile(path("comp.db.bak"), nil, 0o644)
		var oldSize, newSize uint64
		end := catch(func() { nt, nv, oldSize, newSize, err = tools.Compact(path("comp.db")) })
		if fs := takeFatals(); len(fs) > 0 {
			t.Fatalf("Compact: fatal error in a worker: %v", fs)
		}
		if end.kind != "return" || err != nil {
			t.Fatalf("Compact failed: %v %s %s", err, end.kind, end.msg)
		}
		_, _ = oldSize, newSize
		if nt != len(m.tables) || nv != len(m.views) {
			t.Fatalf("Compact reports %d tables %d views, model has %d and %d", nt, nv, len(m.tables), len(m.views))
		}
		got, err = openDump(path("comp.db"), true, true)
		if err != nil && got == "" {
			t.Fatalf("compacted database: %v", err)
		}
		if got != want {
			t.Fatalf("compacted database differs from the original: %s\n--- compacted\n%.3000s--- model\n%.3000s", diffHint(got, want), got, want)
		}
		if err != nil {
			t.Fatalf("compacted database: %v", err)
		}

		// --- per table load into an empty database
		wantSec := tableSections(want)
		tdb, err := db19.CreateDatabase(path("tbl.db"))
		if err != nil {
			t.Fatalf("harness: %v", err)
		}
		func() {
			defer tdb.Close()
			for _, name := range m.tableNames() {
				mt := m.tables[name]
				hasFk := slices.ContainsFunc(mt.idxs, func(ix *mIndex) bool { return ix.fkT != "" })
				var n int
				end := catch(func() { n, err = tools.LoadDbTable(name, path(name+".su"), "", "", tdb) })
				if end.kind != "return" {
					t.Fatalf("LoadDbTable %s did not return: %s %s", name, end.kind, end.msg)
				}
				if hasFk {
					if err == nil {
						t.Fatalf("LoadDbTable %s: a single table with foreign keys was loaded (documented as refused)", name)
					}
					rec.Label("table_load_refused_fk")
					continue
				}
				if err != nil {
					t.Fatalf("LoadDbTable %s failed: %v", name, err)
				}
				if n != len(mt.rows) {
					t.Fatalf("LoadDbTable %s reports %d records, model has %d", name, n, len(mt.rows))
				}
				rec.Label("table_load_ok")
			}
			gotSec := tableSections(dumpDb(tdb, true))
			for _, name := range m.tableNames() {
				mt := m.tables[name]
				if slices.ContainsFunc(mt.idxs, func(ix *mIndex) bool { return ix.fkT != "" }) {
					if _, ok := gotSec[name]; ok {
						t.Fatalf("refused table %s exists after LoadDbTable", name)
					}
					continue
				}
				if gotSec[name] != wantSec[name] {
					t.Fatalf("table %s loaded from its own dump differs: %s", name, diffHint(gotSec[name], wantSec[name]))
				}
			}
			if e := tdb.Check(true); e != nil {
				t.Fatalf("database of per-table loads fails the full check: %v", e)
			}
		}()

		// --- mutated dumps
		raw, err := os.ReadFile(path("d.su"))
		if err != nil {
			t.Fatalf("harness: %v", err)
		}
		df, err := parseDump(raw)
		if err != nil {
			t.Fatalf("dump file is not in the documented format: %v", err)
		}
		if !bytes.Equal(df.bytes(), raw) {
			t.Fatalf("harness: dump parser does not round trip")
		}
		mutated := c20Mutations(t, rec, m, df, path)
		_ = prep

		nt2 := m.hasDeletedCol() || m.hasFk()
		rec.Case(nt2 && m.tablesWithRows() >= 2, want)
		rec.LabelIf(m.hasDeletedCol(), "db_with_dropped_column")
		rec.LabelIf(m.hasFk(), "db_with_foreign_key")
		rec.LabelIf(multiKey > 0, "db_with_table_with_2plus_keys")
		rec.LabelIf(notFirst > 0, "db_with_smallest_key_not_first")
		rec.LabelN("compacted_tables_smallest_key_not_first_2plus_rows", notFirstRows)
		rec.LabelN("tables_with_2plus_keys", multiKey)
		rec.LabelIf(len(m.views) > 0, "db_with_view")
		rec.LabelIf(h.usedBig, "db_with_66KB_record")
		rec.LabelIf(h.cnt["reopen"] > 0, "db_reopened")
		rec.LabelIf(h.cnt["rename_table"] > 0, "db_with_renamed_table")
		rec.LabelIf(h.cnt["alter_rename_col"] > 0, "db_with_renamed_column")
		rec.LabelIf(h.cnt["cascade_delete"] > 0, "db_with_cascade_delete")
		rec.Label(fmt.Sprintf("tables_with_rows_%d", m.tablesWithRows()))
		rec.LabelN("mutated_dumps", mutated)
		if rec.WantSample("roundtrip") {
			rec.Sample("roundtrip", map[string]any{"model": want, "journal_tail": tail(h.journal, 15), "compact_old_new": []uint64{oldSize, newSize}})
		}
	})
}

// c20Mutations loads mutated copies of the dump: a re-appended record
// (duplicate key), a record with a fresh key and a duplicate non-empty unique
// value (both must be refused), a record with a fresh key that duplicates a
// plain index value, and a record with a dangling foreign key value (both
// must load and be present).
func c20Mutations(t *rapid.T, rec *ev.Rec, m *model, df *dumpFile, path func(string) string) int {
	done := 0
	names := m.tableNames()
	load := func(d *dumpFile, what string) (err error) {
		os.Remove(path("mut.db"))
		os.WriteFile(path("mut.db"), nil, 0o644) // placeholder, see prep
		os.WriteFile(path("mut.db.bak"), nil, 0o644)
		if e := os.WriteFile(path("mut.su"), d.bytes(), 0o644); e != nil {
			t.Fatalf("harness: %v", e)
		}
		end := catch(func() { _, _, err = tools.LoadDatabase(path("mut.su"), path("mut.db"), "", "") })
		if end.kind == "fatal" { // "Errors are fatal" is also a loud refusal
			return fmt.Errorf("fatal: %s", end.msg)
		}
		if end.kind != "return" {
			t.Fatalf("LoadDatabase (%s) did not return: %s %s", what, end.kind, end.msg)
		}
		return err
	}
	cols := func(sec *dumpSection) []string {
		sch := query.NewAdminParser(sec.schema).Schema()
		return sch.Columns
	}
	withRows := func(pred func(*mTable) bool) []string {
		var r []string
		for _, n := range names {
			if len(m.tables[n].rows) > 0 && pred(m.tables[n]) {
				r = append(r, n)
			}
		}
		return r
	}
	freshKey := 100000
	// blank every unique column so that only the intended constraint is in play
	blankUnique := func(mt *mTable, repl map[string]string) {
		for _, ix := range mt.idxs {
			if ix.mode == 'u' {
				for _, c := range ix.cols {
					if _, set := repl[c]; !set {
						repl[c] = ""
					}
				}
			}
		}
	}
	// keep foreign key values valid unless the mutation is about them
	// (the copied record already holds valid or empty values)

	// 1. duplicate key: the record re-appended right behind itself
	if c := withRows(func(*mTable) bool { return true }); len(c) > 0 {
		name := c[uniDraw(t, "mut_table", len(c))]
		d := df.clone()
		sec := d.table(name)
		i := uniDraw(t, "mut_rec", len(sec.recs))
		mt := m.tables[name]
		what := "the whole record"
		if mt.nkeys() >= 2 && uniDraw(t, "mut_whichkey", 100) < 60 {
			// fresh values in all keys but one: a duplicate in that key only
			var keys []string
			for _, ix := range mt.idxs {
				if ix.mode == 'k' {
					keys = append(keys, strings.Join(ix.cols, ","))
				}
			}
			keep := keys[uniDraw(t, "mut_keep", len(keys))]
			what = "key(" + keep + ") only"
			insertOrdered(sec, remake(sec.recs[i], cols(sec), freshKeys(mt, freshKey, keep)))
			rec.Label("refused_duplicate_in_one_of_several_keys")
		} else {
			sec.recs = slices.Insert(sec.recs, i+1, sec.recs[i])
		}
		if err := load(d, "duplicate key"); err == nil {
			t.Fatalf("LoadDatabase accepted a dump with a duplicated key in %s (record %d duplicated in %s)", name, i, what)
		}
		if fi, err := os.Stat(path("mut.db")); err != nil || fi.Size() != 0 {
			t.Fatalf("LoadDatabase refused the dump (duplicate key) but replaced the target database file")
		}
		rec.Label("refused_duplicate_key")
		done++
	}
	// 2. duplicate non-empty unique value under a fresh key
	if c := withRows(func(mt *mTable) bool {
		for _, r := range mt.rows {
			for col, v := range r {
				if v != "" && mt.uniqueCol(col) && !keyCol(col) {
					return true
				}
			}
		}
		return false
	}); len(c) > 0 {
		name := c[uniDraw(t, "mut_table", len(c))]
		mt := m.tables[name]
		d := df.clone()
		sec := d.table(name)
		cs := cols(sec)
		var cands []int
		for i, r := range sec.recs {
			for ci, col := range cs {
				if mt.uniqueCol(col) && !keyCol(col) && core.Record(string(r)).GetRaw(ci) != "" {
					cands = append(cands, i)
					break
				}
			}
		}
		if len(cands) > 0 {
			i := cands[uniDraw(t, "mut_rec", len(cands))]
			insertOrdered(sec, remake(sec.recs[i], cs, freshKeys(mt, freshKey, "")))
			if err := load(d, "duplicate unique value"); err == nil {
				t.Fatalf("LoadDatabase accepted a dump with a duplicated non-empty unique value in %s", name)
			}
			rec.Label("refused_duplicate_unique")
			done++
		}
	}
	// 3. duplicate value in a plain index under a fresh key: must load
	if c := withRows(func(mt *mTable) bool {
		return slices.ContainsFunc(mt.idxs, func(ix *mIndex) bool { return ix.mode == 'i' && ix.fkT == "" })
	}); len(c) > 0 {
		name := c[uniDraw(t, "mut_table", len(c))]
		mt := m.tables[name]
		d := df.clone()
		sec := d.table(name)
		cs := cols(sec)
		i := uniDraw(t, "mut_rec", len(sec.recs))
		repl := freshKeys(mt, freshKey, "")
		blankUnique(mt, repl)
		nr := remake(sec.recs[i], cs, repl)
		insertOrdered(sec, nr)
		if err := load(d, "duplicate in a plain index"); err != nil {
			t.Fatalf("LoadDatabase refused a dump whose only duplicate is in a plain index of %s: %v", name, err)
		}
		c20Expect(t, m, name, cs, nr, freshKey, path("mut.db"), "plain index duplicate", true)
		rec.Label("loaded_plain_index_duplicate")
		done++
	}
	// 4. dangling foreign key value: documented as not re-checked by load
	if c := withRows(func(mt *mTable) bool {
		return slices.ContainsFunc(mt.idxs, func(ix *mIndex) bool { return ix.fkT != "" })
	}); len(c) > 0 {
		name := c[uniDraw(t, "mut_table", len(c))]
		mt := m.tables[name]
		d := df.clone()
		sec := d.table(name)
		cs := cols(sec)
		i := uniDraw(t, "mut_rec", len(sec.recs))
		repl := freshKeys(mt, freshKey, "")
		blankUnique(mt, repl)
		for _, ix := range mt.idxs {
			if ix.fkT != "" {
				repl[ix.cols[0]] = packInt(77777) // no such key in the target
			}
		}
		nr := remake(sec.recs[i], cs, repl)
		insertOrdered(sec, nr)
		if err := load(d, "dangling foreign key"); err != nil {
			t.Fatalf("LoadDatabase refused a dump with dangling foreign key data in %s (documented: not re-checked): %v", name, err)
		}
		c20Expect(t, m, name, cs, nr, freshKey, path("mut.db"), "dangling foreign key", false)
		rec.Label("loaded_dangling_fk")
		done++
	}
	return done
}

// c20Expect: the database loaded from the mutated dump is the model plus the added record.
func c20Expect(t *rapid.T, m *model, table string, cols []string, added []byte, key int, file, what string, fullCheck bool) {
	m2 := m.clone()
	row := map[string]string{}
	r := core.Record(string(added))
	for i, c := range cols {
		if v := canonVal(r.GetRaw(i)); v != "" {
			row[c] = v
		}
	}
	if row["k"] != "i:"+strconv.Itoa(key) {
		t.Fatalf("harness: added record has key %s", row["k"])
	}
	m2.tables[table].rows[key] = row
	want := m2.canon(true)
	got, err := openDump(file, true, fullCheck)
	if err != nil && got == "" {
		t.Fatalf("database loaded from the dump with a %s: %v", what, err)
	}
	if got != want {
		t.Fatalf("database loaded from the dump with a %s differs from model + added record: %s", what, diffHint(got, want))
	}
	if err != nil {
		t.Fatalf("database loaded from the dump with a %s: %v", what, err)
	}
}
