// Package recoverx holds the checks for C05 (crash recovery restores the
// latest durable state; fault enumeration over crash offsets and tails) and
// C20 (dump / load / compact preserve the logical database).
//
// Everything lives in _test.go files: a small lifecycle-history generator with
// an independent model of the logical database (model_test.go), the canonical
// logical dump of a real database (dump_test.go), process hygiene for the
// never-unmapped mmap stores (hygiene_test.go) and the two checks.
package recoverx
