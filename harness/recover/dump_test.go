package recoverx

// Canonical logical dump of a real database, in the same form as model.canon.

import (
	"fmt"
	"sort"
	"strings"

	"github.com/apmckinlay/gsuneido/core"
	"github.com/apmckinlay/gsuneido/db19"
)

// on-disk constants of db19 (unexported there); checked against real files
// by every history (see checkStateOffsets).
const (
	magic1   = "\x01\x23\x45\x67\x89\xab\xcd\xef"
	magic2   = "\xfe\xdc\xba\x98\x76\x54\x32\x10"
	stateLen = 36 // magic1 8 + date 8 + 2 small offsets 10 + cksum 2 + magic2 8
	magic2at = stateLen - 8
	tailSize = 8
	shutdown = "\x2b\xc1\x85\x63\x8d\x71\x65\x6d"
	corrupt  = "\xff\xff\xff\xff\xff\xff\xff\xff"
	dbMagic  = "gsndo004"
)

func canonVal(raw string) string {
	if raw == "" {
		return ""
	}
	if raw[0] == core.PackString {
		return canonStr(raw[1:])
	}
	return "i:" + core.Unpack(raw).String()
}

// dumpDb renders the logical contents of db: views, and per table the
// columns, indexes with foreign keys in both directions, Info.Nrows and the
// rows read through every index (a disagreement between indexes, or between
// Info and the rows, is rendered into the dump so that it can never equal a
// model snapshot).
func dumpDb(db *db19.Database, squeeze bool) string {
	rt := db.NewReadTran()
	var sb strings.Builder
	views := rt.GetAllViews()
	vs := make([]string, 0, len(views)/2)
	for i := 0; i+1 < len(views); i += 2 {
		vs = append(vs, fmt.Sprintf("view %s = %s\n", views[i], views[i+1]))
	}
	sort.Strings(vs)
	for _, v := range vs {
		sb.WriteString(v)
	}
	schemas := rt.GetAllSchema()
	sort.Slice(schemas, func(i, j int) bool { return schemas[i].Table < schemas[j].Table })
	have := map[string]bool{}
	for _, ts := range schemas {
		have[ts.Table] = true
		info := rt.GetInfo(ts.Table)
		if info == nil {
			fmt.Fprintf(&sb, "table %s INFO-MISSING\n", ts.Table)
			continue
		}
		var idxs, fkHere []string
		for i := range ts.Indexes {
			ix := &ts.Indexes[i]
			s := fmt.Sprintf("%c(%s)", ix.Mode, strings.Join(ix.Columns, ","))
			if ix.Fk.Table != "" {
				s += fmt.Sprintf(">%s(%s)/%d", ix.Fk.Table, strings.Join(ix.Fk.Columns, ","), ix.Fk.Mode)
			}
			idxs = append(idxs, s)
			for _, fk := range ix.FkToHere {
				fkHere = append(fkHere, fmt.Sprintf("%c(%s)<%s(%s)/%d", ix.Mode, strings.Join(ix.Columns, ","),
					fk.Table, strings.Join(fk.Columns, ","), fk.Mode))
			}
		}
		sb.WriteString(tableHeader(ts.Table, ts.Columns, idxs, fkHere, info.Nrows, squeeze))
		if len(info.Indexes) != len(ts.Indexes) {
			fmt.Fprintf(&sb, " INDEX-COUNT-MISMATCH schema %d info %d\n", len(ts.Indexes), len(info.Indexes))
			continue
		}
		var first []string
		for i := range ts.Indexes {
			ix := &ts.Indexes[i]
			var flds []int
			for _, c := range ix.Columns {
				flds = append(flds, slicesIndex(ts.Columns, c))
			}
			var rows []string
			var prev []string
			size := int64(0)
			it := rt.IndexIter(ts.Table, i)
			for it.Next(rt); !it.Eof(); it.Next(rt) {
				off := it.CurOff()
				rec := rt.GetRecord(off)
				size += int64(len(rec))
				rows = append(rows, canonRow(ts.Columns, func(i int, _ string) string { return canonVal(rec.GetRaw(i)) }))
				// the scan through index i must be ordered by index i's own
				// columns (packed values sort bytewise, field by field), and
				// every row must be found again through every key
				cur := make([]string, len(flds))
				for j, f := range flds {
					cur[j] = strings.Clone(rec.GetRaw(f))
				}
				if prev != nil {
					c := slicesCompare(prev, cur)
					if c > 0 || c == 0 && ix.Mode == 'k' {
						fmt.Fprintf(&sb, " ORDER-VIOLATION in %s: %q then %q\n", idxs[i], prev, cur)
					}
				}
				prev = cur
				if ix.Mode == 'k' {
					if found := rt.Lookup(ts.Table, i, ix.Ixspec.Key(rec)); found == nil || found.Off != off {
						fmt.Fprintf(&sb, " LOOKUP-MISS in %s for %q\n", idxs[i], cur)
					}
				}
			}
			sort.Strings(rows)
			if i == 0 {
				first = rows
				if size != info.Size {
					fmt.Fprintf(&sb, " SIZE-MISMATCH info %d rows %d\n", info.Size, size)
				}
				if len(rows) != info.Nrows {
					fmt.Fprintf(&sb, " NROWS-MISMATCH info %d rows %d\n", info.Nrows, len(rows))
				}
			} else if strings.Join(rows, "\n") != strings.Join(first, "\n") {
				fmt.Fprintf(&sb, " INDEX-MISMATCH %s:\n  %s\n", idxs[i], strings.Join(rows, "\n  "))
			}
		}
		// and every row reached through the first index must be found through every other key
		it0 := rt.IndexIter(ts.Table, 0)
		for it0.Next(rt); !it0.Eof(); it0.Next(rt) {
			rec := rt.GetRecord(it0.CurOff())
			for i := range ts.Indexes {
				if ix := &ts.Indexes[i]; ix.Mode == 'k' {
					if found := rt.Lookup(ts.Table, i, ix.Ixspec.Key(rec)); found == nil || found.Off != it0.CurOff() {
						fmt.Fprintf(&sb, " LOOKUP-MISS in %s for row at %d\n", idxs[i], it0.CurOff())
					}
				}
			}
		}
		for _, r := range first {
			sb.WriteString(" " + r + "\n")
		}
	}
	for _, ti := range rt.GetAllInfo() {
		if !have[ti.Table] {
			fmt.Fprintf(&sb, "ORPHAN-INFO %s\n", ti.Table)
		}
	}
	return sb.String()
}

func slicesIndex(list []string, x string) int {
	for i, v := range list {
		if v == x {
			return i
		}
	}
	return -1
}

func slicesCompare(a, b []string) int {
	for i := range a {
		if c := strings.Compare(a[i], b[i]); c != 0 {
			return c
		}
	}
	return 0
}
