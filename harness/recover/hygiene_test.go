package recoverx

// Process hygiene for checks that open real database files many times.
//
//   - mmapStor.close never unmaps: every open leaks one 64 MB mapping and
//     vm.max_map_count is 65530, while one C05 run opens files > 100 000 times.
//     unmapUnder() unmaps the leaked mappings of files below the check's own
//     scratch directory (found in /proc/self/maps) while no database is open.
//   - core.Fatal calls core.Exit: pointed at a panic (harness goroutines) or
//     a recorded message + Goexit (worker goroutines of the code under test).
//   - Repair / Corrupt print to stdout / the log for every call: silenced
//     while an enumeration runs.

import (
	"bufio"
	"fmt"
	"io"
	"log"
	"os"
	"path/filepath"
	"runtime"
	"strconv"
	"strings"
	"sync"
	"syscall"

	"github.com/apmckinlay/gsuneido/core"
)

// scratchDir returns a fresh private directory for the check and chdirs
// into it (Repair, Compact and LoadDatabase create their temp files in ".").
// The returned function goes back, keeps rapid's fail files (written
// relative to the working directory) where the driver looks for them and
// removes the directory.
func scratchDir(t interface {
	TempDir() string
	Fatalf(string, ...any)
}, name string) (string, func()) {
	orig, _ := os.Getwd()
	base := os.Getenv("VERIF_SCRATCH")
	if base == "" {
		base = t.TempDir()
	}
	dir := filepath.Join(base, name)
	os.RemoveAll(dir)
	if err := os.MkdirAll(dir, 0o755); err != nil {
		t.Fatalf("scratch: %v", err)
	}
	if err := os.Chdir(dir); err != nil {
		t.Fatalf("chdir: %v", err)
	}
	return dir, func() {
		if orig != "" {
			os.Chdir(orig)
			filepath.WalkDir(dir, func(p string, d os.DirEntry, err error) error {
				if err == nil && !d.IsDir() && strings.HasSuffix(p, ".fail") && strings.Contains(p, "testdata") {
					rel, _ := filepath.Rel(dir, p)
					if i := strings.Index(rel, "testdata"); i >= 0 {
						to := filepath.Join(orig, rel[i:])
						os.MkdirAll(filepath.Dir(to), 0o755)
						os.Rename(p, to)
					}
				}
				return nil
			})
		}
		os.RemoveAll(dir)
	}
}

// unmapUnder unmaps every mapping of a file below dir. Must only be called
// while no store on such a file is in use.
func unmapUnder(dir string) int {
	f, err := os.Open("/proc/self/maps")
	if err != nil {
		return 0
	}
	type rng struct{ lo, hi uintptr }
	var todo []rng
	prefix := dir + "/"
	sc := bufio.NewScanner(f)
	sc.Buffer(make([]byte, 64*1024), 1024*1024)
	for sc.Scan() {
		line := sc.Text()
		i := strings.IndexByte(line, '/')
		if i < 0 || !strings.HasPrefix(line[i:], prefix) {
			continue
		}
		dash := strings.IndexByte(line, '-')
		sp := strings.IndexByte(line, ' ')
		if dash < 0 || sp < dash {
			continue
		}
		lo, e1 := strconv.ParseUint(line[:dash], 16, 64)
		hi, e2 := strconv.ParseUint(line[dash+1:sp], 16, 64)
		if e1 != nil || e2 != nil || hi <= lo {
			continue
		}
		todo = append(todo, rng{uintptr(lo), uintptr(hi)})
	}
	f.Close()
	n := 0
	for _, r := range todo {
		if _, _, e := syscall.Syscall(syscall.SYS_MUNMAP, r.lo, r.hi-r.lo, 0); e == 0 {
			n++
		}
	}
	return n
}

// fatal handling -------------------------------------------------------------

type fatalErr struct{ msg string }

func (f fatalErr) Error() string { return "FATAL: " + f.msg }

var (
	harnessG  sync.Map // goroutine id -> true: goroutines owned by the harness
	fatalMu   sync.Mutex
	fatalMsgs []string // Fatal calls seen on goroutines of the code under test
	lastFatal struct {
		sync.Mutex
		msg string
	}
)

func goid() int64 {
	var buf [64]byte
	n := runtime.Stack(buf[:], false)
	s := strings.TrimPrefix(string(buf[:n]), "goroutine ")
	if i := strings.IndexByte(s, ' '); i > 0 {
		id, _ := strconv.ParseInt(s[:i], 10, 64)
		return id
	}
	return -1
}

// ownGoroutine marks the calling goroutine as one where core.Fatal turns
// into a catchable panic. Returns the undo function.
func ownGoroutine() func() {
	id := goid()
	harnessG.Store(id, true)
	return func() { harnessG.Delete(id) }
}

type fatalWriter struct{}

// core.Fatal logs "FATAL: <msg>" before calling Exit; capture the text.
func (fatalWriter) Write(p []byte) (int, error) {
	if i := strings.Index(string(p), "FATAL: "); i >= 0 {
		lastFatal.Lock()
		lastFatal.msg = strings.TrimSpace(string(p[i+7:]))
		lastFatal.Unlock()
	}
	return len(p), nil
}

func installExitHook() {
	log.SetOutput(fatalWriter{})
	log.SetFlags(0)
	core.Exit = func(code int) {
		lastFatal.Lock()
		msg := lastFatal.msg
		lastFatal.Unlock()
		if _, ok := harnessG.Load(goid()); ok {
			panic(fatalErr{msg})
		}
		fatalMu.Lock()
		fatalMsgs = append(fatalMsgs, msg)
		fatalMu.Unlock()
		runtime.Goexit()
	}
}

func takeFatals() []string {
	fatalMu.Lock()
	defer fatalMu.Unlock()
	r := fatalMsgs
	fatalMsgs = nil
	return r
}

// quiet redirects os.Stdout to /dev/null (Repair prints its search trace)
// until the returned function is called.
func quiet() func() {
	old := os.Stdout
	null, err := os.OpenFile(os.DevNull, os.O_WRONLY, 0)
	if err != nil {
		return func() {}
	}
	os.Stdout = null
	return func() {
		os.Stdout = old
		null.Close()
	}
}

// catch runs fn and classifies how it ended.
type ending struct {
	kind string // "return" | "fatal" | "suerror" | "runtime"
	msg  string
}

func catch(fn func()) (e ending) {
	defer func() {
		if r := recover(); r != nil {
			switch x := r.(type) {
			case fatalErr:
				e = ending{"fatal", x.msg}
			case runtime.Error:
				e = ending{"runtime", x.Error()}
			default:
				e = ending{"suerror", fmt.Sprint(r)}
			}
		}
	}()
	fn()
	return ending{"return", ""}
}

var _ = io.Discard
