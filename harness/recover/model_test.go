package recoverx

// Independent model of the logical database plus the lifecycle-history
// generator that drives a real db19 database and the model in lock step.
//
// The generator only issues requests whose outcome the model predicts
// (accepted with a known effect, or refused with no effect); a disagreement
// between the real database and the prediction while the history is being
// built is reported as a build problem of the history, separately from the
// property oracles.

import (
	"fmt"
	"hash/fnv"
	"os"
	"slices"
	"sort"
	"strconv"
	"strings"
	"time"

	"github.com/apmckinlay/gsuneido/core"
	"github.com/apmckinlay/gsuneido/db19"
	"github.com/apmckinlay/gsuneido/dbms/query"
	"pgregory.net/rapid"
	"verifharness/internal/gen"
)

const (
	fkBlock   = 0
	fkCascade = 3
)

type mIndex struct {
	mode   byte // 'k' key, 'i' index, 'u' unique index
	cols   []string
	fkT    string // foreign key target table ("" = none); target columns are always (k)
	fkMode int
}

func (ix *mIndex) String() string {
	s := fmt.Sprintf("%c(%s)", ix.mode, strings.Join(ix.cols, ","))
	if ix.fkT != "" {
		s += fmt.Sprintf(">%s(k)/%d", ix.fkT, ix.fkMode)
	}
	return s
}

func (ix *mIndex) admin() string {
	var s string
	switch ix.mode {
	case 'k':
		s = "key"
	case 'i':
		s = "index"
	case 'u':
		s = "index unique"
	}
	s += "(" + strings.Join(ix.cols, ",") + ")"
	if ix.fkT != "" {
		s += " in " + ix.fkT + "(k)"
		if ix.fkMode == fkCascade {
			s += " cascade"
		}
	}
	return s
}

type mTable struct {
	name string
	cols []string // physical columns in order; "-" marks a dropped column
	idxs []*mIndex
	rows map[int]map[string]string // key k -> column -> canonical value (non-empty only)
	// further key columns (never renamed or dropped): p low cardinality and
	// q unique form key(p,q); s is unique (key(s)), long if longKey so that
	// this key's btree has more levels than the others
	seqQ, seqS int
	longKey    bool
}

type model struct {
	tables map[string]*mTable
	views  map[string]string
}

func newModel() *model {
	return &model{tables: map[string]*mTable{}, views: map[string]string{}}
}

func (m *model) clone() *model {
	c := newModel()
	for k, v := range m.views {
		c.views[k] = v
	}
	for name, t := range m.tables {
		ct := &mTable{name: t.name, cols: slices.Clone(t.cols), rows: make(map[int]map[string]string, len(t.rows)),
			seqQ: t.seqQ, seqS: t.seqS, longKey: t.longKey}
		for _, ix := range t.idxs {
			cix := *ix
			cix.cols = slices.Clone(ix.cols)
			ct.idxs = append(ct.idxs, &cix)
		}
		for k, r := range t.rows {
			cr := make(map[string]string, len(r))
			for c, v := range r {
				cr[c] = v
			}
			ct.rows[k] = cr
		}
		c.tables[name] = ct
	}
	return c
}

func (m *model) tableNames() []string {
	names := make([]string, 0, len(m.tables))
	for n := range m.tables {
		names = append(names, n)
	}
	sort.Strings(names)
	return names
}

func (m *model) viewNames() []string {
	names := make([]string, 0, len(m.views))
	for n := range m.views {
		names = append(names, n)
	}
	sort.Strings(names)
	return names
}

func (t *mTable) keys() []int {
	ks := make([]int, 0, len(t.rows))
	for k := range t.rows {
		ks = append(ks, k)
	}
	sort.Ints(ks)
	return ks
}

func (t *mTable) liveCols() []string {
	var r []string
	for _, c := range t.cols {
		if c != "-" {
			r = append(r, c)
		}
	}
	return r
}

// hasLong: does some row hold a value of more than 700 bytes in col
// (too large for an index entry together with other fields)?
func (t *mTable) hasLong(col string) bool {
	for _, r := range t.rows {
		if v := r[col]; strings.HasPrefix(v, "S") {
			if n, _ := strconv.Atoi(v[1:strings.IndexByte(v, ':')]); n > 700 {
				return true
			}
		}
	}
	return false
}

// keyCol: one of the generated key columns (their values are always present and unique by construction)
func keyCol(c string) bool { return c == "k" || c == "p" || c == "q" || c == "s" }

func (t *mTable) nkeys() int {
	n := 0
	for _, ix := range t.idxs {
		if ix.mode == 'k' {
			n++
		}
	}
	return n
}

func (t *mTable) hasDeleted() bool { return slices.Contains(t.cols, "-") }

func (t *mTable) findIndex(cols []string) *mIndex {
	for _, ix := range t.idxs {
		if slices.Equal(ix.cols, cols) {
			return ix
		}
	}
	return nil
}

func (t *mTable) inIndex(col string) bool {
	for _, ix := range t.idxs {
		if slices.Contains(ix.cols, col) {
			return true
		}
	}
	return false
}

// uniqueCol / fkCol: single-column unique / foreign-key index on col?
func (t *mTable) uniqueCol(col string) bool {
	for _, ix := range t.idxs {
		if ix.mode == 'u' && len(ix.cols) == 1 && ix.cols[0] == col {
			return true
		}
	}
	return false
}

func (t *mTable) fkOf(col string) *mIndex {
	for _, ix := range t.idxs {
		if ix.fkT != "" && ix.cols[0] == col {
			return ix
		}
	}
	return nil
}

// sources returns (table, index) pairs whose foreign key points at target.
type fkSrc struct {
	t  *mTable
	ix *mIndex
}

func (m *model) sources(target string) []fkSrc {
	var r []fkSrc
	for _, n := range m.tableNames() {
		t := m.tables[n]
		for _, ix := range t.idxs {
			if ix.fkT == target {
				r = append(r, fkSrc{t, ix})
			}
		}
	}
	return r
}

func (m *model) hasFk() bool {
	for _, t := range m.tables {
		for _, ix := range t.idxs {
			if ix.fkT != "" {
				return true
			}
		}
	}
	return false
}

func (m *model) hasDeletedCol() bool {
	for _, t := range m.tables {
		if t.hasDeleted() {
			return true
		}
	}
	return false
}

func (m *model) tablesWithRows() int {
	n := 0
	for _, t := range m.tables {
		if len(t.rows) > 0 {
			n++
		}
	}
	return n
}

// canDelete: would deleting row k of t be accepted (no blocking reference
// anywhere in the cascade closure)?
func (m *model) canDelete(t *mTable, k int) bool {
	kv := "i:" + strconv.Itoa(k)
	for _, s := range m.sources(t.name) {
		for _, sk := range s.t.keys() {
			if s.t.rows[sk][s.ix.cols[0]] == kv {
				if s.ix.fkMode != fkCascade || !m.canDelete(s.t, sk) {
					return false
				}
			}
		}
	}
	return true
}

// doDelete removes row k of t and cascades.
func (m *model) doDelete(t *mTable, k int) {
	kv := "i:" + strconv.Itoa(k)
	delete(t.rows, k)
	for _, s := range m.sources(t.name) {
		for _, sk := range s.t.keys() {
			if r, ok := s.t.rows[sk]; ok && r[s.ix.cols[0]] == kv {
				m.doDelete(s.t, sk)
			}
		}
	}
}

// canonical rendering ------------------------------------------------------

// canonVal shortens long values so that snapshots stay small.
func canonStr(s string) string {
	if len(s) <= 40 {
		return "s:" + s
	}
	h := fnv.New64a()
	h.Write([]byte(s))
	return fmt.Sprintf("S%d:%x", len(s), h.Sum64())
}

func canonRow(cols []string, get func(i int, col string) string) string {
	var parts []string
	for i, c := range cols {
		if c == "-" {
			continue
		}
		if v := get(i, c); v != "" {
			parts = append(parts, c+"="+v)
		}
	}
	sort.Strings(parts)
	return strings.Join(parts, " ")
}

func tableHeader(name string, cols []string, idxs, fkHere []string, nrows int, squeeze bool) string {
	if squeeze {
		cols = slices.DeleteFunc(slices.Clone(cols), func(c string) bool { return c == "-" })
	}
	idxs, fkHere = slices.Clone(idxs), slices.Clone(fkHere)
	sort.Strings(idxs)
	sort.Strings(fkHere)
	return fmt.Sprintf("table %s cols[%s] idx[%s] fkhere[%s] nrows %d\n", name,
		strings.Join(cols, ","), strings.Join(idxs, " "), strings.Join(fkHere, " "), nrows)
}

// canon renders the model in the same form as dumpDb renders a database.
// squeeze drops the "-" place holders (dump/load/compact are documented to
// squeeze deleted columns).
func (m *model) canon(squeeze bool) string {
	var sb strings.Builder
	for _, v := range m.viewNames() {
		fmt.Fprintf(&sb, "view %s = %s\n", v, m.views[v])
	}
	for _, n := range m.tableNames() {
		t := m.tables[n]
		var idxs, fkHere []string
		for _, ix := range t.idxs {
			idxs = append(idxs, ix.String())
		}
		for _, s := range m.sources(n) {
			fkHere = append(fkHere, fmt.Sprintf("k(k)<%s(%s)/%d", s.t.name, strings.Join(s.ix.cols, ","), s.ix.fkMode))
		}
		sb.WriteString(tableHeader(n, t.cols, idxs, fkHere, len(t.rows), squeeze))
		rows := make([]string, 0, len(t.rows))
		for _, k := range t.keys() {
			r := t.rows[k]
			rows = append(rows, canonRow(t.cols, func(_ int, c string) string { return r[c] }))
		}
		sort.Strings(rows)
		for _, r := range rows {
			sb.WriteString(" " + r + "\n")
		}
	}
	return sb.String()
}

// history generator ------------------------------------------------------

type histParams struct {
	minStates int    // stop only after this many persisted states ...
	minSize   uint64 // ... and this file size
	maxSize   uint64 // stop anyway at this size (0 = no limit)
	maxOps    int
	persistW  int  // weight of explicit persist among the operations
	reopen    bool // include intermediate clean close / reopen
	bigRec    bool // allow one 70 KB+ record (32-bit record header)
	longVals  bool // values of a few hundred / thousand bytes
	maxRows   int  // soft bound on rows per table
}

type stateRec struct {
	Off  uint64
	Snap string // model canon(false) when the state was written
}

type hist struct {
	t       *rapid.T
	p       histParams
	file    string
	db      *db19.Database
	m       *model
	states  []stateRec
	cleanAt []uint64 // image lengths that end in state + shutdown marker (clean closes)
	journal []string
	nextU   int
	usedBig bool
	cnt     map[string]int
}

type buildError struct{ msg string }

// discardable: build problems that mean "the database engine damaged the
// history's own database in normal operation" (clean close / reopen, persist).
// They belong to other properties (C04, C06, C21); for C05 / C20 such a
// history is not a valid input: it is discarded, counted and announced.
// Disagreements about single requests stay hard failures.
var discardable = []string{
	"reopen after clean close failed",
	"database differs from the model after clean reopen",
	"database differs from the model after persist",
	"database differs from the model before dumping",
	"the cleanly closed history file fails the full check",
}

var noted = map[string]bool{}

func discardClass(msg string) string {
	for _, d := range discardable {
		if strings.Contains(msg, d) {
			return d
		}
	}
	return ""
}

// discard records and announces a discarded history; returns false if the
// problem is not of a discardable class.
func discard(rec interface {
	Label(string)
	Excluded(string)
}, id, msg string) bool {
	cls := discardClass(msg)
	if cls == "" {
		return false
	}
	rec.Label("history_discarded")
	rec.Excluded("history-build: " + cls)
	if !noted[cls] {
		noted[cls] = true
		first, _, _ := strings.Cut(msg, "\n")
		fmt.Printf("NOTE: property=%s history discarded, its own database broke in normal operation (outside this property): %.300s\n", id, first)
	}
	return true
}

func (h *hist) fail(format string, a ...any) {
	panic(buildError{fmt.Sprintf(format, a...) + "\njournal tail:\n  " + strings.Join(tail(h.journal, 12), "\n  ")})
}

func tail(s []string, n int) []string {
	if len(s) > n {
		return s[len(s)-n:]
	}
	return s
}

func (h *hist) n(label string, lo, hi int) int {
	return rapid.IntRange(lo, hi).Draw(h.t, label)
}

// uni draws a uniformly distributed int in [0,n) (rapid's integer generators
// are deliberately biased towards small values; operation mixes want real
// percentages).
func (h *hist) uni(label string, n int) int {
	return uniDraw(h.t, label, n)
}

func uniDraw(t *rapid.T, label string, n int) int {
	return gen.Uniform(t, label, n)
}

func (h *hist) chance(label string, pct int) bool {
	return h.uni(label, 100) < pct
}

func pickStr(h *hist, label string, list []string) string {
	return list[h.uni(label, len(list))]
}

var tableNames = []string{"ta", "tb", "tc", "td", "te", "tf"}
var viewNames = []string{"va", "vb", "vc"}
var colNames = []string{"a", "b", "c", "d", "e", "f", "g", "a2", "b2", "c2", "d2"}

func setupGlobals() {
	db19.MakeSuTran = func(ut *db19.UpdateTran) *core.SuTran {
		return core.NewSuTran(nil, true)
	}
	query.MakeSuTran = func(qt query.QueryTran) *core.SuTran {
		return nil
	}
}

// newHist creates the database file and starts the real checker/merger
// pipeline (persists happen only when requested: the interval is an hour).
func newHist(t *rapid.T, file string, p histParams) *hist {
	setupGlobals()
	os.Remove(file)
	db, err := db19.CreateDatabase(file)
	if err != nil {
		panic(buildError{"CreateDatabase: " + err.Error()})
	}
	db19.StartConcur(db, time.Hour)
	return &hist{t: t, p: p, file: file, db: db, m: newModel(), cnt: map[string]int{}}
}

func (h *hist) log(s string) {
	if len(s) > 300 {
		s = s[:300] + fmt.Sprintf("...(%d bytes)", len(s))
	}
	h.journal = append(h.journal, s)
}

// admin runs an admin request; ok says whether the model expects it to be accepted.
func (h *hist) admin(cmd string, ok bool) {
	h.log(fmt.Sprintf("admin(%v) %s", ok, cmd))
	// building an index on a populated table persists first (since the fix
	// "persist before building indexes"): a state written by the request
	// itself holds the database as it was before the request
	before, snapBefore := h.db.GetState().Off, h.m.canon(false)
	var e any
	func() {
		defer func() { e = recover() }()
		query.DoAdmin(h.db, cmd, nil)
	}()
	if after := h.db.GetState().Off; after != before {
		h.log(fmt.Sprintf("(the request persisted: state at %d)", after))
		h.record(after, snapBefore)
		h.cnt["persist_by_admin"]++
	}
	if ok && e != nil {
		h.fail("admin request refused but the model accepts it: %s: %v", cmd, e)
	}
	if !ok && e == nil {
		h.fail("admin request accepted but the model refuses it: %s", cmd)
	}
	if _, isRt := e.(interface{ RuntimeError() }); isRt {
		h.fail("admin request died with a runtime error: %s: %v", cmd, e)
	}
}

func lit(v string) string {
	switch {
	case v == "":
		return `""`
	case strings.HasPrefix(v, "i:"):
		return v[2:]
	default:
		return `"` + v[2:] + `"`
	}
}

// drawVal draws a value for column col of table t (canonical form, literal form).
func (h *hist) drawVal(t *mTable, col string) (canon, literal string) {
	switch col {
	case "p":
		v := "i:" + strconv.Itoa(h.uni("p", 4))
		return v, lit(v)
	case "q": // unique per table, descending so that key(p,q) orders rows unlike key(k)
		t.seqQ++
		v := "i:" + strconv.Itoa(100000-t.seqQ)
		return v, lit(v)
	case "s": // unique per table, scrambled order
		t.seqS++
		str := fmt.Sprintf("%c%c%d", 'a'+(t.seqS*7)%26, 'a'+(t.seqS*11)%26, t.seqS)
		if t.longKey {
			str += strings.Repeat("w", 150+(t.seqS*37)%200)
		}
		return canonStr(str), `"` + str + `"`
	}
	if fk := t.fkOf(col); fk != nil {
		tt := h.m.tables[fk.fkT]
		ks := tt.keys()
		if len(ks) == 0 || h.chance("fkempty", 20) {
			return "", `""`
		}
		v := "i:" + strconv.Itoa(ks[h.n("fkkey", 0, len(ks)-1)])
		return v, lit(v)
	}
	if t.uniqueCol(col) {
		if h.chance("uempty", 25) {
			return "", `""`
		}
		h.nextU++
		v := "s:u" + strconv.Itoa(h.nextU)
		return v, lit(v)
	}
	switch h.uni("valkind", 10) {
	case 0, 1:
		return "", `""`
	case 2, 3, 4:
		v := "i:" + strconv.Itoa(h.n("int", 0, 50))
		return v, lit(v)
	case 5, 6, 7:
		s := strings.Repeat(string(rune('a'+h.n("ch", 0, 25))), h.n("slen", 1, 12))
		return "s:" + s, `"` + s + `"`
	case 8:
		if h.p.longVals {
			// an index entry is limited to 4096 bytes: indexed columns stay below 1 KB
			n := []int{100, 254, 255, 256, 700, 3000}[h.n("longlen", 0, 5)]
			if t.inIndex(col) {
				n = min(n, 700)
			}
			s := strings.Repeat(string(rune('a'+h.n("ch", 0, 25))), n)
			return canonStr(s), `"` + s + `"`
		}
		fallthrough
	default:
		if h.p.bigRec && !h.usedBig && !t.inIndex(col) && h.chance("big", 30) {
			h.usedBig = true
			s := strings.Repeat("x", 66000+h.n("biglen", 0, 9000)) + "y"
			h.cnt["big_record"]++
			return canonStr(s), `"` + s + `"`
		}
		v := "i:" + strconv.Itoa(h.n("int2", 1000, 99999))
		return v, lit(v)
	}
}

// tranOps runs 1..6 data actions in one update transaction, then commits
// (or aborts: nothing may remain).
func (h *hist) tranOps() {
	names := h.m.tableNames()
	if len(names) == 0 {
		return
	}
	saved := h.m.clone()
	ut := h.db.NewUpdateTran()
	nops := h.n("nactions", 1, 6)
	for i := 0; i < nops; i++ {
		t := h.m.tables[pickStr(h, "table", names)]
		kind := h.uni("action", 10)
		ks := t.keys()
		switch {
		case kind <= 4 || len(ks) == 0: // insert
			if len(ks) >= h.p.maxRows {
				continue
			}
			k := h.n("key", 0, 400)
			if _, dup := t.rows[k]; dup {
				continue
			}
			row := map[string]string{"k": "i:" + strconv.Itoa(k)}
			flds := []string{"k: " + strconv.Itoa(k)}
			for _, c := range t.liveCols() {
				if c == "k" {
					continue
				}
				v, l := h.drawVal(t, c)
				if v != "" {
					row[c] = v
					flds = append(flds, c+": "+l)
				}
			}
			h.action(ut, "insert { "+strings.Join(flds, ", ")+" } into "+t.name, 1)
			t.rows[k] = row
			h.cnt["insert"]++
		case kind <= 7: // update
			k := ks[h.n("row", 0, len(ks)-1)]
			var cands []string
			for _, c := range t.liveCols() {
				if c != "k" {
					cands = append(cands, c)
				}
			}
			if len(cands) == 0 {
				continue
			}
			var sets []string
			row := t.rows[k]
			for j, nset := 0, h.n("nset", 1, 2); j < nset; j++ {
				c := pickStr(h, "col", cands)
				if slices.ContainsFunc(sets, func(s string) bool { return strings.HasPrefix(s, c+" = ") }) {
					continue
				}
				v, l := h.drawVal(t, c)
				sets = append(sets, c+" = "+l)
				if v == "" {
					delete(row, c)
				} else {
					row[c] = v
				}
			}
			h.action(ut, fmt.Sprintf("update %s where k is %d set %s", t.name, k, strings.Join(sets, ", ")), 1)
			h.cnt["update"]++
		default: // delete
			k := ks[h.n("row", 0, len(ks)-1)]
			if !h.m.canDelete(t, k) {
				continue
			}
			before := 0
			for _, x := range h.m.tables {
				before += len(x.rows)
			}
			h.m.doDelete(t, k)
			after := 0
			for _, x := range h.m.tables {
				after += len(x.rows)
			}
			if before-after > 1 {
				h.cnt["cascade_delete"]++
			}
			h.action(ut, fmt.Sprintf("delete %s where k is %d", t.name, k), 1)
			h.cnt["delete"]++
		}
	}
	if h.chance("abort", 12) {
		h.log("abort")
		ut.Abort()
		h.m = saved
		h.cnt["tran_abort"]++
		return
	}
	h.log("commit")
	func() {
		defer func() {
			if e := recover(); e != nil {
				h.fail("commit failed: %v", e)
			}
		}()
		ut.Commit()
	}()
	h.cnt["tran_commit"]++
}

func (h *hist) action(ut *db19.UpdateTran, cmd string, want int) {
	h.log("action " + cmd)
	var e any
	n := -1
	func() {
		defer func() { e = recover() }()
		n = query.DoAction(nil, ut, cmd)
	}()
	if e != nil {
		h.fail("action refused but the model accepts it: %.200s: %v", cmd, e)
	}
	if n != want {
		h.fail("action %.200s affected %d rows, model says %d", cmd, n, want)
	}
}

// refusedAction issues a request that must be refused, in its own transaction.
func (h *hist) refusedAction() {
	names := h.m.tableNames()
	if len(names) == 0 {
		return
	}
	t := h.m.tables[pickStr(h, "table", names)]
	ks := t.keys()
	if len(ks) == 0 {
		return
	}
	k := ks[h.n("row", 0, len(ks)-1)]
	var cmd string
	switch h.uni("refkind", 5) {
	case 0: // duplicate key
		cmd = fmt.Sprintf("insert { k: %d } into %s", k, t.name)
	case 1: // duplicate unique value
		for _, c := range t.liveCols() {
			if v := t.rows[k][c]; t.uniqueCol(c) && (strings.HasPrefix(v, "s:") || strings.HasPrefix(v, "i:")) {
				cmd = fmt.Sprintf("insert { k: 999, %s: %s } into %s", c, lit(t.rows[k][c]), t.name)
			}
		}
	case 2: // dangling foreign key
		for _, c := range t.liveCols() {
			if fk := t.fkOf(c); fk != nil {
				cmd = fmt.Sprintf("insert { k: 998, %s: 77777 } into %s", c, t.name)
			}
		}
	case 4: // duplicate in a secondary key only
		if r := t.rows[k]; r["q"] != "" && t.findIndex([]string{"p", "q"}) != nil {
			cmd = fmt.Sprintf("insert { k: 997, p: %s, q: %s, s: \"zz997\" } into %s", lit(r["p"]), lit(r["q"]), t.name)
		}
	case 3: // delete of a row with a blocking reference
		if !h.m.canDelete(t, k) {
			cmd = fmt.Sprintf("delete %s where k is %d", t.name, k)
		}
	}
	if cmd == "" {
		return
	}
	h.log("refused-action " + cmd)
	ut := h.db.NewUpdateTran()
	var e any
	func() {
		defer func() { e = recover() }()
		query.DoAction(nil, ut, cmd)
	}()
	ut.Abort()
	if e == nil {
		h.fail("action accepted but the model refuses it: %s", cmd)
	}
	h.cnt["refused_action"]++
}

func (h *hist) unusedTable() string {
	var free []string
	for _, n := range tableNames {
		if _, ok := h.m.tables[n]; !ok {
			free = append(free, n)
		}
	}
	if len(free) == 0 {
		return ""
	}
	return pickStr(h, "newtable", free)
}

func (h *hist) createTable() {
	if len(h.m.tables) >= 4 {
		return
	}
	name := h.unusedTable()
	if name == "" {
		return
	}
	t := &mTable{name: name, cols: []string{"k", "a"}, rows: map[int]map[string]string{}}
	t.idxs = []*mIndex{{mode: 'k', cols: []string{"k"}}}
	for _, c := range []string{"b", "c", "d"} {
		if h.chance("col"+c, 70) {
			t.cols = append(t.cols, c)
		}
	}
	// 1-3 keys: key(k) always, often a composite key(p,q) and/or key(s)
	if h.chance("keypq", 45) {
		t.cols = append(t.cols, "p", "q")
		t.idxs = append(t.idxs, &mIndex{mode: 'k', cols: []string{"p", "q"}})
	}
	if h.chance("keys", 45) {
		t.cols = append(t.cols, "s")
		t.idxs = append(t.idxs, &mIndex{mode: 'k', cols: []string{"s"}})
		t.longKey = h.chance("longkey", 40)
	}
	has := func(c string) bool { return slices.Contains(t.cols, c) }
	if h.chance("ixa", 50) {
		t.idxs = append(t.idxs, &mIndex{mode: 'i', cols: []string{"a"}})
	}
	if has("b") && h.chance("ixb", 60) {
		t.idxs = append(t.idxs, &mIndex{mode: 'u', cols: []string{"b"}})
	}
	if others := h.m.tableNames(); has("c") && len(others) > 0 && h.chance("ixc", 70) {
		mode := fkBlock
		if h.chance("cascade", 50) {
			mode = fkCascade
		}
		t.idxs = append(t.idxs, &mIndex{mode: 'i', cols: []string{"c"}, fkT: pickStr(h, "fktable", others), fkMode: mode})
		h.cnt["create_fk"]++
	}
	if has("d") && h.chance("ixad", 25) {
		t.idxs = append(t.idxs, &mIndex{mode: 'i', cols: []string{"a", "d"}})
	}
	if has("d") && h.chance("ixd", 20) {
		t.idxs = append(t.idxs, &mIndex{mode: 'i', cols: []string{"d"}})
	}
	if has("d") && h.chance("ixda", 15) {
		t.idxs = append(t.idxs, &mIndex{mode: 'i', cols: []string{"d", "a"}})
	}
	if has("p") && h.chance("ixp", 30) {
		t.idxs = append(t.idxs, &mIndex{mode: 'i', cols: []string{"p"}})
	}
	if has("s") && has("b") && h.chance("ixsb", 15) {
		t.idxs = append(t.idxs, &mIndex{mode: 'i', cols: []string{"s", "a"}})
	}
	// the order of the indexes in the request is generated: the first key is
	// often not the smallest one (composite, or the long key(s))
	for i := len(t.idxs) - 1; i > 0; i-- {
		j := h.uni("ixorder", i+1)
		t.idxs[i], t.idxs[j] = t.idxs[j], t.idxs[i]
	}
	if t.nkeys() >= 2 {
		h.cnt["create_table_multikey"]++
	}
	var ix []string
	for _, x := range t.idxs {
		ix = append(ix, x.admin())
	}
	verb := "create"
	if h.chance("ensure", 20) {
		verb = "ensure"
	}
	h.admin(fmt.Sprintf("%s %s (%s) %s", verb, name, strings.Join(t.cols, ", "), strings.Join(ix, " ")), true)
	h.m.tables[name] = t
	h.cnt["create_table"]++
}

// alter performs one accepted schema change on an existing table.
func (h *hist) alter() {
	names := h.m.tableNames()
	if len(names) == 0 {
		return
	}
	t := h.m.tables[pickStr(h, "table", names)]
	freeCol := func() string {
		var free []string
		for _, c := range colNames {
			if !slices.Contains(t.cols, c) {
				free = append(free, c)
			}
		}
		if len(free) == 0 {
			return ""
		}
		return pickStr(h, "newcol", free)
	}
	switch h.uni("alter", 7) {
	case 0: // new column (alter create or ensure)
		c := freeCol()
		if c == "" || len(t.cols) >= 9 {
			return
		}
		if h.chance("ensure", 30) {
			h.admin(fmt.Sprintf("ensure %s (%s)", t.name, c), true)
		} else {
			h.admin(fmt.Sprintf("alter %s create (%s)", t.name, c), true)
		}
		t.cols = append(t.cols, c)
		h.cnt["alter_create_col"]++
	case 1: // new index on existing data
		var cands []string
		for _, c := range t.liveCols() {
			if c != "k" && t.findIndex([]string{c}) == nil && !t.hasLong(c) {
				cands = append(cands, c)
			}
		}
		if len(cands) == 0 || len(t.idxs) >= 5 {
			return
		}
		c := pickStr(h, "ixcol", cands)
		ix := &mIndex{mode: 'i', cols: []string{c}}
		if len(t.rows) > 0 {
			// building an index on existing rows while the merge of an earlier
			// commit is still pending corrupts the new index (defect outside
			// C05/C20, reported separately): wait for the merger first
			h.persist()
		}
		if !keyCol(c) && h.chance("unique", 30) {
			seen := map[string]bool{}
			uniq := true
			for _, r := range t.rows {
				if v := r[c]; v != "" {
					if seen[v] {
						uniq = false
					}
					seen[v] = true
				}
			}
			if !uniq {
				h.admin(fmt.Sprintf("alter %s create index unique(%s)", t.name, c), false)
				h.cnt["refused_admin"]++
				return
			}
			// values drawn later for a unique column are fresh "u<n>" strings,
			// which cannot collide with the existing int / letter values
			ix.mode = 'u'
		}
		h.admin(fmt.Sprintf("alter %s create %s", t.name, ix.admin()), true)
		t.idxs = append(t.idxs, ix)
		h.cnt["alter_create_index"]++
	case 2: // drop a non-key index
		var cands []*mIndex
		for _, ix := range t.idxs {
			if ix.mode != 'k' {
				cands = append(cands, ix)
			}
		}
		if len(cands) == 0 {
			return
		}
		ix := cands[h.n("dropix", 0, len(cands)-1)]
		h.admin(fmt.Sprintf("alter %s drop index(%s)", t.name, strings.Join(ix.cols, ",")), true)
		t.idxs = slices.DeleteFunc(t.idxs, func(x *mIndex) bool { return x == ix })
		h.cnt["alter_drop_index"]++
		if ix.fkT != "" {
			h.cnt["alter_drop_fk_index"]++
		}
	case 3: // drop a column
		var free, used []string
		for _, c := range t.liveCols() {
			if c == "k" {
				continue
			}
			if t.inIndex(c) {
				used = append(used, c)
			} else {
				free = append(free, c)
			}
		}
		if len(used) > 0 && h.chance("dropused", 20) {
			h.admin(fmt.Sprintf("alter %s drop (%s)", t.name, pickStr(h, "col", used)), false)
			h.cnt["refused_admin"]++
			return
		}
		if len(free) == 0 {
			return
		}
		c := pickStr(h, "col", free)
		h.admin(fmt.Sprintf("alter %s drop (%s)", t.name, c), true)
		t.cols[slices.Index(t.cols, c)] = "-"
		for _, r := range t.rows {
			delete(r, c)
		}
		h.cnt["alter_drop_col"]++
	case 4: // rename a column
		var cands []string
		for _, c := range t.liveCols() {
			if !keyCol(c) {
				cands = append(cands, c)
			}
		}
		to := freeCol()
		if len(cands) == 0 || to == "" {
			return
		}
		from := pickStr(h, "col", cands)
		h.admin(fmt.Sprintf("alter %s rename %s to %s", t.name, from, to), true)
		t.cols[slices.Index(t.cols, from)] = to
		for _, ix := range t.idxs {
			for i, c := range ix.cols {
				if c == from {
					ix.cols[i] = to
				}
			}
		}
		for _, r := range t.rows {
			if v, ok := r[from]; ok {
				delete(r, from)
				r[to] = v
			}
		}
		h.cnt["alter_rename_col"]++
		if t.fkOf(to) != nil {
			h.cnt["rename_fk_col"]++
		}
	case 5: // rename the table (only tables that are not a foreign key target)
		to := h.unusedTable()
		if to == "" {
			return
		}
		if _, isView := h.m.views[to]; isView {
			return
		}
		if len(h.m.sources(t.name)) > 0 {
			return
		}
		h.admin(fmt.Sprintf("rename %s to %s", t.name, to), true)
		delete(h.m.tables, t.name)
		t.name = to
		h.m.tables[to] = t
		h.cnt["rename_table"]++
	case 6: // drop the table
		if len(h.m.sources(t.name)) > 0 {
			h.admin("drop "+t.name, false)
			h.cnt["refused_admin"]++
			return
		}
		if len(h.m.tables) <= 1 {
			// a drop that empties the schema is lost on clean close / reopen
			// (defect outside C05/C20, reported separately)
			return
		}
		h.admin("drop "+t.name, true)
		delete(h.m.tables, t.name)
		h.cnt["drop_table"]++
	}
}

func (h *hist) viewOp() {
	name := pickStr(h, "view", viewNames)
	if _, ok := h.m.views[name]; ok {
		h.admin("drop "+name, true)
		delete(h.m.views, name)
		h.cnt["drop_view"]++
		return
	}
	def := pickStr(h, "viewdef", []string{"ta", "tb where k > 3", "ta join tb", "tc project k, a"})
	h.admin("view "+name+" = "+def, true)
	h.m.views[name] = def
	h.cnt["create_view"]++
}

func (h *hist) refusedAdmin() {
	names := h.m.tableNames()
	if len(names) == 0 {
		return
	}
	t := h.m.tables[pickStr(h, "table", names)]
	switch h.n("refadmin", 0, 3) {
	case 0:
		h.admin("create "+t.name+" (k, a) key(k)", false)
	case 1:
		h.admin("alter "+t.name+" drop (zz)", false)
	case 2:
		if t.nkeys() == 1 {
			h.admin("alter "+t.name+" drop key(k)", false) // can't drop all keys
		} else {
			h.admin("alter "+t.name+" drop index(zz)", false)
		}
	case 3:
		h.admin("alter "+t.name+" create (k)", false)
	}
	h.cnt["refused_admin"]++
}

// persist forces a persist and records (state offset, model snapshot).
// The database's own logical dump must agree with the model here (history
// build sanity; the property oracles only use the recorded snapshots).
func (h *hist) persist() {
	h.log("persist")
	st := h.db.Persist()
	if st == nil {
		h.fail("Persist returned nil")
	}
	snap := h.m.canon(false)
	h.record(st.Off, snap)
	h.cnt["persist"]++
	if got := dumpDb(h.db, false); got != snap {
		h.fail("database differs from the model after persist\n--- database\n%s--- model\n%s", got, snap)
	}
}

func (h *hist) record(off uint64, snap string) {
	if n := len(h.states); n > 0 && h.states[n-1].Off == off {
		if h.states[n-1].Snap != snap {
			h.fail("model changed without a new state at offset %d", off)
		}
		return
	}
	if n := len(h.states); n > 0 && h.states[n-1].Off > off {
		h.fail("state offsets not increasing: %d after %d", off, h.states[n-1].Off)
	}
	h.states = append(h.states, stateRec{Off: off, Snap: snap})
}

// closeClean closes the database (final persist + shutdown marker) and
// records the final state, found at the end of the file.
func (h *hist) closeClean() {
	h.log("close")
	snap := h.m.canon(false)
	h.db.Close()
	fi, err := os.Stat(h.file)
	if err != nil {
		h.fail("stat: %v", err)
	}
	size := uint64(fi.Size())
	if size < uint64(stateLen+tailSize+8) {
		h.fail("file too small after close: %d", size)
	}
	h.record(size-tailSize-stateLen, snap)
	h.cleanAt = append(h.cleanAt, size)
	h.db = nil
}

func (h *hist) reopen() {
	h.closeClean()
	h.log("reopen")
	db, err := db19.OpenDatabase(h.file)
	if err != nil {
		h.fail("reopen after clean close failed: %v", err)
	}
	db19.StartConcur(db, time.Hour)
	h.db = db
	h.cnt["reopen"]++
	if got, want := dumpDb(h.db, false), h.m.canon(false); got != want {
		h.fail("database differs from the model after clean reopen\n--- database\n%s--- model\n%s", got, want)
	}
}

// run generates operations until the stop condition holds.
func (h *hist) run() {
	h.createTable()
	for op := 0; op < h.p.maxOps; op++ {
		if size := h.db.Store.Size(); len(h.states) >= h.p.minStates && size >= h.p.minSize ||
			h.p.maxSize > 0 && size >= h.p.maxSize {
			break
		}
		w := h.uni("op", 100)
		pw := h.p.persistW
		switch {
		case w < pw:
			h.persist()
		case w < pw+40:
			h.tranOps()
		case w < pw+46:
			h.createTable()
		case w < pw+58:
			h.alter()
		case w < pw+62:
			h.viewOp()
		case w < pw+66:
			h.refusedAction()
		case w < pw+69:
			h.refusedAdmin()
		case w < pw+72:
			if h.p.reopen {
				h.reopen()
			}
		default:
			h.tranOps()
		}
	}
}
