package txn

import (
	"encoding/json"
	"fmt"
	"os"
	"runtime/debug"
	"sort"
	"strings"
	"sync"
	"time"

	"github.com/apmckinlay/gsuneido/core"
	"github.com/apmckinlay/gsuneido/db19"
	"github.com/apmckinlay/gsuneido/db19/index"
	"github.com/apmckinlay/gsuneido/db19/index/ixkey"
	"github.com/apmckinlay/gsuneido/db19/stor"
	"github.com/apmckinlay/gsuneido/dbms/query"
	"pgregory.net/rapid"
	"verifharness/internal/ev"
	"verifharness/internal/gen"
	"verifharness/internal/kf"
)

// ---------------------------------------------------------------- program

// Instr is one step of a generated program. All choices are abstract
// (slot numbers, indexes into whatever is visible at run time) so that the
// whole program can be drawn up front, journaled, shrunk and replayed.
type Instr struct {
	Op   string `json:"op"`
	S    int    `json:"s,omitempty"` // transaction slot
	T    int    `json:"t,omitempty"` // table
	I    int    `json:"i,omitempty"` // index
	K    []int  `json:"k,omitempty"` // value / row choices
	N    int    `json:"n,omitempty"` // steps / mask
	Dir  int    `json:"dir,omitempty"`
	Trim bool   `json:"trim,omitempty"`
	Upd  bool   `json:"upd,omitempty"`
	Aim  bool   `json:"aim,omitempty"` // aim the write at another transaction's read range / rows
}

func (in Instr) String() string {
	b, _ := json.Marshal(in)
	return string(b)
}

type Program struct {
	Schemas []string `json:"schemas"`
	MaxAge  int      `json:"maxage"`
	Instrs  []Instr  `json:"instrs"`
	// C44: which tables have a trigger; the trigger throws when column a of
	// the old or new row equals valDomain[ThrowOn] (-1: never)
	// Async: no checker barrier after each step (conflict aborts then reach
	// the transaction while later messages of it are already queued)
	Async bool `json:"async,omitempty"`
	// Domain maps value choices to valDomain entries (nil = identity)
	Domain  []int  `json:"domain,omitempty"`
	Trig    []bool `json:"trig,omitempty"`
	ThrowOn int    `json:"throwon,omitempty"`
}

// GenOpts tunes the program generator per property.
type GenOpts struct {
	World     WorldOpts
	Slots     int
	MaxInstrs int
	Weights   map[string]int // op -> weight
	ValRange  int            // size of the value domain used (<= len(valDomain))
	LowMaxAge bool
	Triggers  bool
	Pauses    bool  // generate pause/release instructions (C16)
	GlobalPct int   // share of global operations (default 8)
	SkewPct   int   // share of programs that start with a read/write-skew template
	ChainPct  int   // share of programs on a three-level foreign key chain whose cascade fails part way
	Domain    []int // value choice -> valDomain index (nil = identity)
}

var defaultWeights = map[string]int{
	"begin": 6, "beginread": 2, "lookup": 8, "scan": 8, "output": 14, "update": 8, "delete": 6,
	"complete": 8, "abort": 2, "persist": 2, "mergesync": 2, "tick": 0, "admin": 0, "reread": 3,
	"scanmod": 2, "action": 0, "trigoff": 0, "trigon": 0,
	"pausemerge": 0, "pausepersist": 0, "waitpaused": 0, "release": 0,
}

func genProgram(t *rapid.T, o GenOpts) Program {
	p := Program{Schemas: genSchemas(t, o.World), MaxAge: 20}
	// three-level chain template: t0 <- t1 (cascade update, two rows on one
	// target key) <- t2 (blocks the re-keying of ONE of the t1 rows): the
	// cascade of a key change of t0 fails after part of it was applied; the
	// refusal must leave nothing behind (the transaction dies or its view is
	// unchanged), whatever the caller does afterwards.
	chain := o.World.Fkeys && o.ChainPct > 0 && gen.Chance(t, "chain", o.ChainPct)
	var chainSetup, chainBody []Instr
	if chain {
		third := gen.Pick(t, "chain3", []string{"", " cascade"})
		p.Schemas = []string{
			"create t0 (a,b,c,d) key(a)",
			"create t1 (a,b,c,d) key(a,b) index(b) in t0(a) cascade update",
			"create t2 (a,b,c,d) key(a) index(b,c) in t1(a,b)" + third,
		}
		const X, Y, P, Q, R = 1, 2, 3, 4, 5
		blocked := gen.Pick(t, "chainblocked", []int{P, Q})
		chainSetup = []Instr{
			{Op: "output", S: 7, T: 0, K: []int{X, 0, 0, 0}, Trim: true},
			{Op: "output", S: 7, T: 1, K: []int{P, X, 0, 0}, Trim: true},
			{Op: "output", S: 7, T: 1, K: []int{Q, X, 0, 0}, Trim: true},
			{Op: "output", S: 7, T: 2, K: []int{R, blocked, X, 0}, Trim: true},
		}
		chainBody = []Instr{
			{Op: "begin", S: 0},
			{Op: "update", S: 0, T: 0, K: []int{1, Y, 0, 0, 0}, N: 1, Trim: true},
			{Op: "output", S: 0, T: 0, K: []int{6 + gen.Uniform(t, "chainout", 6), 0, 0, 0}, Trim: true},
			{Op: "complete", S: 0},
		}
	}
	if o.LowMaxAge && gen.Chance(t, "lowage", 30) {
		p.MaxAge = rapid.IntRange(1, 3).Draw(t, "maxage")
	}
	weight := func(op string) int {
		if w, ok := o.Weights[op]; ok {
			return w
		}
		return defaultWeights[op]
	}
	p.Async = gen.Chance(t, "async", 25)
	p.Domain = o.Domain
	p.ThrowOn = -1
	if o.Triggers {
		for range p.Schemas {
			p.Trig = append(p.Trig, gen.Chance(t, "hastrigger", 75))
		}
		if gen.Chance(t, "throws", 40) {
			p.ThrowOn = gen.Uniform(t, "throwon", 6)
		}
	}
	var tranOps, globalOps []string
	for _, op := range []string{"lookup", "scan", "output", "update", "delete", "reread", "scanmod", "action"} {
		for i := 0; i < weight(op); i++ {
			tranOps = append(tranOps, op)
		}
	}
	for _, op := range []string{"persist", "mergesync", "tick", "admin", "trigoff", "trigon", "pausemerge", "pausepersist", "waitpaused", "release"} {
		for i := 0; i < weight(op); i++ {
			globalOps = append(globalOps, op)
		}
	}
	nt := len(p.Schemas)
	vr := o.ValRange
	if vr <= 0 || vr > len(valDomain) {
		vr = 5
	}
	// values: mostly from the "home region" of the slot (so that concurrent
	// transactions often have disjoint footprints and can both commit),
	// sometimes from anywhere (so that they also collide)
	home := 0
	vals := func(label string) []int {
		if vr > 4 && gen.Chance(t, label+"_home", 70) {
			ks := make([]int, 4)
			for i := range ks {
				ks[i] = (home*3 + gen.Uniform(t, label, 3)) % vr
			}
			return ks
		}
		ks := make([]int, 4)
		for i := range ks {
			ks[i] = gen.Uniform(t, label, vr)
		}
		return ks
	}
	// setup: one transaction that fills the tables (targets first) and commits
	const setupSlot = 7
	nsetup := gen.Uniform(t, "nsetup", 9)
	for i := 0; i < nsetup; i++ {
		p.Instrs = append(p.Instrs, Instr{Op: "output", S: setupSlot, T: gen.Uniform(t, "t", nt), K: vals("k"), Trim: true})
	}
	p.Instrs = append(p.Instrs, chainSetup...)
	if nsetup > 0 || len(chainSetup) > 0 {
		p.Instrs = append(p.Instrs, Instr{Op: "complete", S: setupSlot})
	}
	nsetup += len(chainSetup)
	p.Instrs = append(p.Instrs, chainBody...)
	// scripts: each slot runs a sequence of transactions; the schedule interleaves them
	genOp := func(s int, op string) Instr {
		home = s
		in := Instr{Op: op, S: s, T: gen.Uniform(t, "t", nt)}
		switch op {
		case "lookup":
			in.I = gen.Uniform(t, "i", 6)
			in.Upd = rapid.Bool().Draw(t, "existing")
			in.K = vals("k")
		case "scan", "scanmod":
			in.I = gen.Uniform(t, "i", 6)
			in.K = append(vals("k1"), vals("k2")...)
			switch gen.Uniform(t, "openrange", 6) {
			case 0:
				in.K[0], in.K[4] = 0, 0 // unbounded (see doScan)
			case 1:
				in.K[0] = 0
			case 2:
				in.K[4] = 0
			}
			in.N = gen.Uniform(t, "steps", 7) // 0 = to eof
			in.Dir = gen.Uniform(t, "dir", 2)
			in.Upd = rapid.Bool().Draw(t, "delnotupd")
		case "output":
			in.K = vals("k")
			in.Trim = rapid.Bool().Draw(t, "trim")
		case "update":
			in.K = append([]int{gen.Uniform(t, "row", 31)}, vals("k")...)
			in.N = 1 + gen.Uniform(t, "mask", 15)
			in.Trim = rapid.Bool().Draw(t, "trim")
		case "delete":
			in.K = []int{gen.Uniform(t, "row", 31)}
		case "action":
			in.K = vals("k")
			in.N = gen.Uniform(t, "col", 4)
			in.Upd = rapid.Bool().Draw(t, "delnotupd")
		}
		if o.Triggers {
			in.Trim = true
		}
		return in
	}
	genScript := func(s int) []Instr {
		var sc []Instr
		if gen.Chance(t, "readtran", 100*weight("beginread")/(weight("begin")+weight("beginread")+1)) {
			sc = append(sc, Instr{Op: "beginread", S: s})
			n := 1 + gen.Uniform(t, "nreads", 5)
			for i := 0; i < n; i++ {
				sc = append(sc, genOp(s, gen.Pick(t, "rop", []string{"lookup", "scan", "scan", "reread"})))
			}
			return append(sc, Instr{Op: "complete", S: s})
		}
		sc = append(sc, Instr{Op: "begin", S: s})
		n := 1 + gen.Uniform(t, "nops", 5)
		for i := 0; i < n; i++ {
			sc = append(sc, genOp(s, gen.Pick(t, "op", tranOps)))
		}
		e := gen.Uniform(t, "end", weight("complete")+weight("abort")+1)
		switch {
		case e < weight("complete"):
			sc = append(sc, Instr{Op: "complete", S: s})
		case e < weight("complete")+weight("abort"):
			sc = append(sc, Instr{Op: "abort", S: s})
		default: // left open: operated on later by whatever comes next in this slot
		}
		return sc
	}
	if o.SkewPct > 0 && gen.Chance(t, "skew", o.SkewPct) {
		// read/write skew template: R reads, W writes into what R read (aimed)
		// and commits, R writes something else and commits — in one of several
		// interleavings. A correct system must make one of them fail whenever
		// the serial order would change what R read.
		R, W := 0, 1
		rd := func() Instr { return genOp(R, gen.Pick(t, "skewread", []string{"scan", "scan", "lookup"})) }
		wr := func() Instr {
			in := genOp(W, gen.Pick(t, "skewwrite", []string{"output", "update", "update", "delete"}))
			in.Aim = true
			return in
		}
		rw := func() Instr { return genOp(R, gen.Pick(t, "skewrwrite", []string{"output", "output", "update"})) }
		var seq []Instr
		shapes := 4
		if o.World.Fkeys {
			shapes = 6
		}
		switch gen.Uniform(t, "skewshape", shapes) {
		case 4, 5:
			// a source row is inserted and committed by W after R began; R then
			// deletes / re-keys the target row it references (cascade or block
			// must take the new row into account, or R must fail)
			w1 := genOp(W, "output")
			r1 := genOp(R, gen.Pick(t, "skewtgt", []string{"delete", "update"}))
			r1.Aim = true
			r1.T = gen.Uniform(t, "skewtt", nt)
			seq = []Instr{{Op: "begin", S: R}, {Op: "begin", S: W}, w1, {Op: "complete", S: W}, r1, {Op: "complete", S: R}}
			if nt > 1 {
				seq[2].T = 1 + gen.Uniform(t, "skewst", nt-1)
			}
		case 0:
			seq = []Instr{{Op: "begin", S: R}, rd(), {Op: "begin", S: W}, wr(), {Op: "complete", S: W}, rw(), {Op: "complete", S: R}}
		case 1:
			seq = []Instr{{Op: "begin", S: W}, {Op: "begin", S: R}, rd(), wr(), {Op: "complete", S: W}, rw(), {Op: "complete", S: R}}
		case 2:
			seq = []Instr{{Op: "begin", S: R}, {Op: "begin", S: W}, rd(), rd(), wr(), wr(), {Op: "complete", S: W}, rw(), {Op: "complete", S: R}}
		default:
			seq = []Instr{{Op: "begin", S: R}, rd(), {Op: "begin", S: W}, wr(), rw(), {Op: "complete", S: W}, {Op: "complete", S: R}}
		}
		for i := range seq {
			if seq[i].Op == "scan" && gen.Chance(t, "skewfull", 60) {
				seq[i].N = 0 // read the whole range
			}
			if seq[i].Op == "scan" && gen.Chance(t, "skewsec", 70) {
				seq[i].I = 1 + gen.Uniform(t, "skewidx", 4) // a secondary index
			}
		}
		p.Instrs = append(p.Instrs, seq...)
	}
	scripts := make([][]Instr, o.Slots)
	total := 3 + gen.Uniform(t, "ninstr", o.MaxInstrs-2)
	for len(p.Instrs) < total+nsetup {
		if len(globalOps) > 0 && gen.Chance(t, "global", max(8, o.GlobalPct)) {
			in := Instr{Op: gen.Pick(t, "gop", globalOps)}
			if in.Op == "admin" {
				in.T = gen.Uniform(t, "t", nt)
				in.K = []int{gen.Uniform(t, "ixcols", 6), gen.Uniform(t, "uniq", 3)}
			}
			if in.Op == "trigoff" || in.Op == "trigon" {
				in.T = gen.Uniform(t, "t", nt)
			}
			p.Instrs = append(p.Instrs, in)
			continue
		}
		s := gen.Uniform(t, "slot", o.Slots)
		if len(scripts[s]) == 0 {
			scripts[s] = genScript(s)
		}
		p.Instrs = append(p.Instrs, scripts[s][0])
		scripts[s] = scripts[s][1:]
	}
	return p
}

// ---------------------------------------------------------------- run state

type event struct { // one entry of a transaction's own history
	read *readRec
	op   *logOp
}

type readRec struct {
	Kind     string // lookup | scan
	Table    string
	Idx      int
	Key      string
	Org, End string
	Dir      int
	Got      []Row
	Eof      bool
	// the rows the bounds / key were built from (nil = unbounded); used to aim
	// other transactions' writes into this read's range
	OrgRow, EndRow Row
}

func (r *readRec) String() string {
	if r.Kind == "lookup" {
		return fmt.Sprintf("lookup %s[%d] %q -> %v", r.Table, r.Idx, r.Key, r.Got)
	}
	return fmt.Sprintf("scan %s[%d] [%q,%q) dir=%d -> %v eof=%v", r.Table, r.Idx, r.Org, r.End, r.Dir, r.Got, r.Eof)
}

type logOp struct {
	Kind     string // output | update | delete
	Table    string
	Old, New Row
}

func (o *logOp) String() string {
	return fmt.Sprintf("%s %s %v -> %v", o.Kind, o.Table, o.Old, o.New)
}

type tranState struct {
	id            int
	ut            *db19.UpdateTran
	rt            *db19.ReadTran
	w             *World // schema at start
	snap          MDB
	view          MDB
	events        []event
	nops          int
	dead          bool   // known to have failed / ended
	why           string // failure text
	overlapWrites bool
	// offsets of earlier versions of rows this transaction has updated itself
	// (table + first key of the current row -> offset before the first update)
	staleOff map[string]uint64
	// table definitions as the transaction showed them when it began (C02:
	// the definition is part of the snapshot; admin requests commit meanwhile)
	schemas map[string]string
}

// schemaOf: the table definition as this transaction shows it.
func (ts *tranState) schemaOf(table string) (s string) {
	defer func() {
		if e := recover(); e != nil {
			s = fmt.Sprint("panic: ", e)
		}
	}()
	if ts.ut != nil {
		return ts.ut.GetSchema(table).String()
	}
	return ts.rt.GetSchema(table).String()
}

func (ts *tranState) isUpdate() bool { return ts.ut != nil }

// quietTran reads an update transaction's view without registering reads
// with the conflict checker (the same trick tran.go's fkeyTran uses), so the
// harness's own verification scans do not create conflicts.
type quietTran struct{ *db19.UpdateTran }

func (quietTran) Read(string, int, string, string) {}

// iterTran is what index iterators need (index.oiTran, structurally).
type iterTran interface {
	GetIndexI(table string, iIndex int) *index.Overlay
	Read(table string, iIndex int, from, to string)
	Num() int
}

// Violation is raised (as a panic inside the case) when an oracle fires.
type Violation struct {
	Props []string
	Msg   string
}

// Config says which properties' oracles are fatal for the running test.
type Config struct {
	Own         map[string]bool
	Rec         *ev.Rec
	CheckStates bool // check every state delivered by VerifStateUpdated (C06/C16)
	// C16: the merger goroutine can be held between computing a merge/persist
	// on a snapshot and applying it; the database runs with a 1 ms persist
	// ticker so that ticker-driven persists race with commits; every published
	// state's logical content is compared with the serial model
	PauseMerger bool
}

type run struct {
	cfg       Config
	db        *db19.Database
	w         *World
	names     []string
	committed MDB
	slots     []*tranState
	log       []string
	nextID    int
	// statistics for non-triviality
	nCommitOK, nCommitFail, nAbort, nConflict, nOverlapCommit, nRefusedDup, nRefusedFk, nCascade int
	nScanBack, nScanPartial, nPersist, nAdminOK, nMaxAge, nExclusive, nDeadOpChecked             int
	nUnexpectedRefusal                                                                           int
	labels                                                                                       map[string]int
	states                                                                                       []*db19.DbState
	foreign                                                                                      *Violation
	// paused merger (C16)
	pz                *pauser
	queuedWhilePaused int
	// commits sent to the merger since it was last known to have drained its
	// queue (the merge channel holds 4; a commit made after a pause point was
	// armed but before the merger reached it is queued without being counted
	// in queuedWhilePaused)
	commitsSinceDrain                                 int
	nAppliedAfterCommit, nPausedMerge, nPausedPersist int
	stateMu                                           sync.Mutex
	newStates                                         []*db19.DbState
	// triggers (C44)
	prog                                                         *Program
	triglog                                                      []trigCall
	trigOff                                                      map[string]int
	nTrigCalls, nTrigThrow, nTrigCascade, nTrigDisabled, nAction int
}

type trigCall struct {
	Table    string
	Old, New Row
	Tran     string
}

func (c trigCall) String() string {
	return fmt.Sprintf("%s %v->%v in %s", c.Table, c.Old, c.New, c.Tran)
}

const trigBoom = "trigger-boom"

// installTriggers defines Trigger_<table> globals that record their calls.
func (r *run) installTriggers() func() {
	var names []string
	for i, on := range r.prog.Trig {
		if !on {
			continue
		}
		td := r.w.Tables[i]
		name := "Trigger_" + td.Name
		names = append(names, name)
		conv := func(v core.Value) Row {
			rec, ok := v.(*core.SuRecord)
			if !ok {
				return nil // false = no row
			}
			row := make(Row, len(td.Cols))
			for j, c := range td.Cols {
				x := rec.Get(thread, core.SuStr(c))
				if x != nil && x != core.EmptyStr {
					row[j] = core.Pack(x.(core.Packable))
				}
			}
			return row
		}
		fn := &core.SuBuiltin3{Fn: func(a1, a2, a3 core.Value) core.Value {
			c := trigCall{Table: td.Name, Old: conv(a2), New: conv(a3), Tran: a1.String()}
			r.triglog = append(r.triglog, c)
			if r.prog.ThrowOn >= 0 {
				bad := valOf(r.prog.ThrowOn)
				if (c.Old != nil && c.Old[0] == bad) || (c.New != nil && c.New[0] == bad) {
					panic(trigBoom)
				}
			}
			return nil
		}, BuiltinParams: core.BuiltinParams{ParamSpec: core.ParamSpec{Nparams: 3, Flags: []core.Flag{0, 0, 0}, Names: []string{"t", "oldrec", "newrec"}}}}
		core.Global.SetName(name, fn)
	}
	return func() {
		for _, n := range names {
			core.Global.SetName(n, nil)
		}
	}
}

// checkTriggers compares the trigger calls made during one operation with
// the row changes the model predicts (as multisets; the order of cascaded
// calls is not specified).
func (r *run) checkTriggers(ts *tranState, what string, before int, chs []change, failed bool) (threw bool) {
	if r.prog == nil || len(r.prog.Trig) == 0 {
		return false
	}
	got := r.triglog[before:]
	for _, c := range got {
		if c.Tran != ts.ut.String() {
			r.violate(fmt.Sprintf("%s: trigger call %v was given transaction %s, the changing transaction is %s", what, c, c.Tran, ts.ut.String()), "C44")
		}
	}
	var want []string
	throwExpected := false
	for _, ch := range chs {
		ti := -1
		for i, td := range r.w.Tables {
			if td.Name == ch.Table {
				ti = i
			}
		}
		if ti < 0 || ti >= len(r.prog.Trig) || !r.prog.Trig[ti] {
			continue
		}
		if r.trigOff[ch.Table] > 0 {
			r.nTrigDisabled++
			continue
		}
		if ch.Old != nil && ch.New != nil && ch.Old.eq(ch.New) {
			continue // not a different value
		}
		want = append(want, trigCall{Table: ch.Table, Old: ch.Old, New: ch.New, Tran: ts.ut.String()}.String())
		if r.prog.ThrowOn >= 0 {
			bad := valOf(r.prog.ThrowOn)
			if (ch.Old != nil && ch.Old[0] == bad) || (ch.New != nil && ch.New[0] == bad) {
				throwExpected = true
			}
		}
	}
	if throwExpected {
		r.nTrigThrow++
		return true
	}
	if failed {
		return false // refused operation: whatever was called before the refusal is not judged
	}
	var gots []string
	for _, c := range got {
		gots = append(gots, c.String())
	}
	sort.Strings(gots)
	sort.Strings(want)
	if strings.Join(gots, "\n") != strings.Join(want, "\n") {
		r.violate(fmt.Sprintf("%s: trigger calls\n  got  %v\n  want %v", what, gots, want), "C44")
	}
	r.nTrigCalls += len(got)
	if len(want) > 1 {
		r.nTrigCascade++
	}
	return false
}

var traceOn = os.Getenv("VERIF_TRACE") != ""

func (r *run) logf(format string, a ...any) {
	r.log = append(r.log, fmt.Sprintf(format, a...))
	if traceOn {
		fmt.Println(r.log[len(r.log)-1])
	}
}

func (r *run) violate(msg string, props ...string) {
	panic(&Violation{Props: props, Msg: msg})
}

func (r *run) label(s string) { r.labels[s]++ }

// ---------------------------------------------------------------- reading the real db

type dbRow struct {
	key string
	off uint64
	rec core.Record
}

// scanAll reads a whole index through the given transaction.
func scanAll(it iterTran, mk func() index.IndexIter, getRec func(uint64) core.Record) []dbRow {
	iter := mk()
	var out []dbRow
	for iter.Next(it); !iter.Eof(); iter.Next(it) {
		k, off := iter.Cur()
		out = append(out, dbRow{k, off, getRec(off)})
		if len(out) > 100000 {
			panic("scanAll: runaway iterator")
		}
	}
	return out
}

// checkView compares what a transaction (or state) shows with a model view:
// every index must list exactly the model's rows, in key order, under the
// right key, with the same set of offsets; Info must agree.
// props: who owns a content mismatch; index disagreements belong to C06.
func (r *run) checkView(what string, w *World, m MDB, it iterTran, mkIter func(table string, i int) index.IndexIter,
	getRec func(uint64) core.Record, info func(table string) (int, int64, bool), contentProps ...string) {
	// (index and content checks for all tables first, Info afterwards: when a
	// half-applied operation shows in one table's Info and in another table's
	// rows, the content mismatch - owned by more properties - is the one raised)
	type tinfo struct {
		nrows int
		size  int64
	}
	actual := map[string]tinfo{}
	for _, td := range w.Tables {
		var offs0 map[uint64]bool
		nrows, size := 0, int64(0)
		for i := range td.Idx {
			rows := scanAll(it, func() index.IndexIter { return mkIter(td.Name, i) }, getRec)
			offs := map[uint64]bool{}
			var got []Row
			for j, dr := range rows {
				if j > 0 && !(rows[j-1].key < dr.key) {
					r.violate(fmt.Sprintf("%s: %s index %d keys not strictly increasing: %q then %q", what, td.Name, i, rows[j-1].key, dr.key), "C06")
				}
				if k := td.Idx[i].Sch.Ixspec.Key(dr.rec); k != dr.key {
					r.violate(fmt.Sprintf("%s: %s index %d entry key %q but its record %v has key %q", what, td.Name, i, dr.key, rowOf(dr.rec, len(td.Cols)), k), "C06")
				}
				if offs[dr.off] {
					r.violate(fmt.Sprintf("%s: %s index %d lists offset %d twice", what, td.Name, i, dr.off), "C06")
				}
				offs[dr.off] = true
				got = append(got, rowOf(dr.rec, len(td.Cols)))
			}
			if i == 0 {
				offs0 = offs
				nrows = len(rows)
				for _, dr := range rows {
					size += int64(dr.rec.Len())
				}
			} else if !sameSet(offs0, offs) {
				r.violate(fmt.Sprintf("%s: %s index %d yields %d rows (offsets %v), index 0 yields %d (%v)", what, td.Name, i, len(offs), keysOf(offs), len(offs0), keysOf(offs0)), "C06")
			}
			_, want := m.sortedByIndex(td, i)
			if !rowsEq(got, want) {
				r.violate(fmt.Sprintf("%s: table %s via index %d (%s) shows %v, model has %v", what, td.Name, i, strings.Join(td.Idx[i].ColNames, ","), got, want), contentProps...)
			}
		}
		actual[td.Name] = tinfo{nrows, size}
	}
	if info != nil {
		for _, td := range w.Tables {
			nrows, size := actual[td.Name].nrows, actual[td.Name].size
			if n, sz, ok := info(td.Name); ok && (n != nrows || sz != size) {
				r.violate(fmt.Sprintf("%s: table %s reports Nrows=%d Size=%d, actual rows=%d bytes=%d", what, td.Name, n, sz, nrows, size), "C03")
			}
		}
	}
}

func sameSet(a, b map[uint64]bool) bool {
	if len(a) != len(b) {
		return false
	}
	for k := range a {
		if !b[k] {
			return false
		}
	}
	return true
}

func keysOf(m map[uint64]bool) []uint64 {
	var ks []uint64
	for k := range m {
		ks = append(ks, k)
	}
	sort.Slice(ks, func(i, j int) bool { return ks[i] < ks[j] })
	return ks
}

func rowsEq(a, b []Row) bool {
	if len(a) != len(b) {
		return false
	}
	for i := range a {
		if !a[i].eq(b[i]) {
			return false
		}
	}
	return true
}

// verifyCommitted: a fresh read transaction must show exactly the model
// folded over the transactions whose completion reported success.
func (r *run) verifyCommitted(when string) {
	rt := r.db.NewReadTran()
	r.checkView("fresh read transaction "+when, r.w, r.committed, rt,
		func(table string, i int) index.IndexIter { return rt.IndexIter(table, i) },
		rt.GetRecord,
		func(table string) (int, int64, bool) {
			ti := rt.GetInfo(table)
			if ti == nil {
				return 0, 0, false
			}
			return ti.Nrows, ti.Size, true
		}, "C03", "C01", "C08")
	c07, c08 := r.w.Invariants(r.committed)
	if c07 != "" {
		r.violate("committed state "+when+": "+c07, "C07")
	}
	if c08 != "" {
		r.violate("committed state "+when+": "+c08, "C08")
	}
}

// verifyOwnView: an update transaction's own view (through every index)
// equals snapshot + own changes.
func (r *run) verifyOwnView(ts *tranState, when string, props ...string) {
	if ts.dead || !ts.isUpdate() || ts.ut.VerifFailure() != "" {
		return
	}
	q := quietTran{ts.ut}
	r.checkView(fmt.Sprintf("update transaction #%d own view %s", ts.id, when), ts.w, ts.view, q,
		func(table string, i int) index.IndexIter { return index.NewOverIter(table, i) },
		ts.ut.GetRecord,
		func(table string) (int, int64, bool) {
			ti := ts.ut.GetInfo(table)
			if ti == nil {
				return 0, 0, false
			}
			return ti.Nrows, ti.Size, true
		}, props...)
}

// checkStates verifies index agreement of every state delivered since the last call.
func (r *run) checkStates(states []*db19.DbState) {
	for _, st := range states {
		rt := r.db.VerifReadTranAt(st)
		// content is not compared here (a state may belong to any point in
		// time); only the agreement of the indexes among themselves
		w := r.w
		ok := true
		for _, td := range w.Tables {
			sc := rt.VerifMeta().GetRoSchema(td.Name)
			if sc == nil || len(sc.Indexes) != len(td.Idx) {
				ok = false
			}
		}
		if !ok {
			continue // state from before/after a schema change of this case
		}
		for _, td := range w.Tables {
			var offs0 map[uint64]bool
			for i := range td.Idx {
				rows := scanAll(rt, func() index.IndexIter { return rt.IndexIter(td.Name, i) }, rt.GetRecord)
				offs := map[uint64]bool{}
				for j, dr := range rows {
					if j > 0 && !(rows[j-1].key < dr.key) {
						r.violate(fmt.Sprintf("state@%p: %s index %d keys not strictly increasing", st, td.Name, i), "C06", "C16")
					}
					if k := td.Idx[i].Sch.Ixspec.Key(dr.rec); k != dr.key {
						r.violate(fmt.Sprintf("state@%p: %s index %d entry key %q but record has key %q", st, td.Name, i, dr.key, k), "C06", "C16")
					}
					offs[dr.off] = true
				}
				if i == 0 {
					offs0 = offs
					if ti := rt.GetInfo(td.Name); ti != nil && ti.Nrows != len(rows) {
						r.violate(fmt.Sprintf("state@%p: %s Info.Nrows=%d but index 0 has %d entries", st, td.Name, ti.Nrows, len(rows)), "C06", "C03", "C16")
					}
				} else if !sameSet(offs0, offs) {
					r.violate(fmt.Sprintf("state@%p: %s index %d yields offsets %v, index 0 yields %v", st, td.Name, i, keysOf(offs), keysOf(offs0)), "C06", "C16")
				}
			}
		}
		r.label("states_checked")
	}
}

// ---------------------------------------------------------------- model evaluation of reads

// evalRead computes what a read must return on view m.
func evalRead(w *World, m MDB, rd *readRec) (rows []Row, complete []Row) {
	td := w.table(rd.Table)
	keys, rs := m.sortedByIndex(td, rd.Idx)
	if rd.Kind == "lookup" {
		for i, k := range keys {
			if k == rd.Key {
				return []Row{rs[i]}, []Row{rs[i]}
			}
		}
		return nil, nil
	}
	var in []Row
	for i, k := range keys {
		if k >= rd.Org && k < rd.End {
			in = append(in, rs[i])
		}
	}
	if rd.Dir == 1 {
		for i, j := 0, len(in)-1; i < j; i, j = i+1, j-1 {
			in[i], in[j] = in[j], in[i]
		}
	}
	return in, in
}

// readMatches: does the observation agree with the model sequence?
func readMatches(rd *readRec, model []Row) bool {
	if rd.Kind == "lookup" {
		return rowsEq(rd.Got, model)
	}
	if len(rd.Got) > len(model) {
		return false
	}
	if !rowsEq(rd.Got, model[:len(rd.Got)]) {
		return false
	}
	if rd.Eof && len(model) != len(rd.Got) {
		return false
	}
	return true
}

// ---------------------------------------------------------------- executing

func catch(f func()) (err string) {
	defer func() {
		if e := recover(); e != nil {
			if v, ok := e.(*Violation); ok {
				panic(v)
			}
			err = fmt.Sprint(e)
			if err == "" {
				err = "panic"
			}
		}
	}()
	f()
	return ""
}

func isTranEnded(err string) bool {
	return strings.Contains(err, "transaction aborted") || strings.Contains(err, "transaction already ended") ||
		strings.Contains(err, "too many writes") || strings.Contains(err, "too many reads")
}

func (r *run) tranOf(in Instr) *tranState {
	ts := r.slots[in.S]
	if ts == nil {
		ts = r.begin(in.S, true)
	}
	return ts
}

func (r *run) begin(slot int, update bool) *tranState {
	ts := &tranState{id: r.nextID, w: r.w, snap: r.committed, view: r.committed.clone()}
	r.nextID++
	if update {
		ts.ut = r.db.NewUpdateTran()
		if ts.ut == nil {
			r.violate("NewUpdateTran returned nil", "C03")
		}
	} else {
		ts.rt = r.db.NewReadTran()
	}
	ts.schemas = map[string]string{}
	for _, td := range r.w.Tables {
		ts.schemas[td.Name] = ts.schemaOf(td.Name)
	}
	r.slots[slot] = ts
	r.logf("  #%d begin %s", ts.id, map[bool]string{true: "update", false: "read"}[update])
	return ts
}

// noteFailure records that the real transaction is no longer usable.
func (r *run) noteFailure(ts *tranState, err string) {
	if !ts.dead {
		ts.dead = true
		ts.why = err
		if strings.Contains(err, "conflict") {
			r.nConflict++
		}
		if strings.Contains(err, "max age") {
			r.nMaxAge++
		}
		if strings.Contains(err, "exclusive") {
			r.nExclusive++
		}
		r.logf("  #%d is dead: %s", ts.id, err)
	}
}

// syncChecker: a low-priority round trip through the checker queue; when it
// returns every earlier message of every transaction has been processed.
func (r *run) syncChecker() {
	if r.prog != nil && r.prog.Async {
		return
	}
	r.db.Final()
}

func (r *run) afterOp(ts *tranState) {
	r.syncChecker()
	if ts != nil && ts.isUpdate() && !ts.dead {
		if f := ts.ut.VerifFailure(); f != "" {
			r.noteFailure(ts, f)
		}
	}
}

func (r *run) iterFor(ts *tranState, table string, i int) (index.IndexIter, iterTran, func(uint64) core.Record) {
	if ts.isUpdate() {
		return ts.ut.IndexIter(table, i), ts.ut, ts.ut.GetRecord
	}
	return ts.rt.IndexIter(table, i), ts.rt, ts.rt.GetRecord
}

func (r *run) doLookupKey(ts *tranState, td *TableDef, i int, key string) (*readRec, *core.DbRec, string) {
	rd := &readRec{Kind: "lookup", Table: td.Name, Idx: i, Key: key}
	var rec *core.DbRec
	err := catch(func() {
		if ts.isUpdate() {
			rec = ts.ut.Lookup(td.Name, i, key)
		} else {
			rec = ts.rt.Lookup(td.Name, i, key)
		}
	})
	if err != "" {
		return rd, nil, err
	}
	if rec != nil {
		rd.Got = []Row{rowOf(rec.Record, len(td.Cols))}
	}
	return rd, rec, ""
}

// checkRead: C02 — the read must equal snapshot + own changes.
func (r *run) checkRead(ts *tranState, rd *readRec) {
	model, _ := evalRead(ts.w, ts.view, rd)
	if !readMatches(rd, model) {
		kind := "read"
		if ts.isUpdate() {
			kind = "update"
		}
		r.violate(fmt.Sprintf("%s transaction #%d: %v but its snapshot+own changes give %v", kind, ts.id, rd, model), "C02")
	}
	ts.events = append(ts.events, event{read: rd})
}

// curDomain is the value-choice mapping of the running program (cases run one
// at a time in a process).
var curDomain []int

func valOf(choice int) string {
	if len(curDomain) > 0 {
		return valDomain[curDomain[choice%len(curDomain)]%len(valDomain)]
	}
	return valDomain[choice%len(valDomain)]
}

func rowFromK(k []int, ncols int) Row {
	row := make(Row, ncols)
	for i := range row {
		row[i] = valOf(k[i%len(k)])
	}
	return row
}

func (r *run) exec(in Instr) {
	if r.pz != nil {
		switch in.Op {
		case "persist", "mergesync", "admin":
			// these wait for the merger: disarm and let it go first
			r.releaseMerger()
		case "complete":
			if r.queuedWhilePaused >= 3 || r.commitsSinceDrain >= 3 { // the checker would block on the full merge channel
				r.releaseMerger()
				r.mergerBarrier()
			}
		}
	}
	switch in.Op {
	case "pausemerge":
		if r.pz != nil {
			r.pz.arm("merge.computed")
			r.logf("  arm pause at merge.computed")
		}
		return
	case "pausepersist":
		if r.pz != nil {
			r.pz.arm("persist.computed")
			r.logf("  arm pause at persist.computed")
		}
		return
	case "waitpaused":
		if r.pz != nil {
			if n := r.pz.waitPaused(20 * time.Millisecond); n != "" {
				r.logf("  merger held at %s", n)
				if n == "merge.computed" {
					r.nPausedMerge++
				} else {
					r.nPausedPersist++
				}
			}
		}
		return
	case "release":
		r.releaseMerger()
		r.mergerBarrier()
		return
	}
	switch in.Op {
	case "begin":
		if r.slots[in.S] == nil {
			r.begin(in.S, true)
			r.afterOp(nil)
		}
	case "beginread":
		if r.slots[in.S] == nil {
			r.begin(in.S, false)
		}
	case "lookup":
		ts := r.tranOf(in)
		if r.deadOp(ts, in) {
			return
		}
		td := ts.w.Tables[in.T%len(ts.w.Tables)]
		i := in.I % len(td.Idx)
		var key string
		rows := ts.view.rows(td.Name)
		if in.Upd && len(rows) > 0 {
			key = td.Idx[i].key(rows[in.K[0]%len(rows)])
		} else {
			key = td.Idx[i].key(rowFromK(in.K, len(td.Cols)))
		}
		rd, _, err := r.doLookupKey(ts, td, i, key)
		if err != "" {
			r.opFailed(ts, in, err)
			return
		}
		if !(in.Upd && len(rows) > 0) {
			rd.OrgRow = rowFromK(in.K, len(td.Cols))
		}
		r.logf("  #%d %v", ts.id, rd)
		r.checkRead(ts, rd)
		r.afterOp(ts)
	case "scan", "scanmod":
		ts := r.tranOf(in)
		if r.deadOp(ts, in) {
			return
		}
		if in.Op == "scanmod" && !ts.isUpdate() {
			return
		}
		r.doScan(ts, in)
	case "output":
		ts := r.tranOf(in)
		if !ts.isUpdate() || r.deadOp(ts, in) {
			return
		}
		td := ts.w.Tables[in.T%len(ts.w.Tables)]
		row := rowFromK(in.K, len(td.Cols))
		// mostly point foreign keys at an existing target row (otherwise nearly
		// every source insert is refused and cascades never have anything to do)
		for i := range td.Idx {
			if fk := td.Idx[i].Fk; fk != nil && (in.K[3]+i)%4 != 0 {
				if trs := ts.view.rows(fk.Table); len(trs) > 0 {
					tr := trs[(in.K[2]+in.K[1])%len(trs)]
					for j, c := range td.Idx[i].Cols[:len(fk.Cols)] {
						row[c] = tr[fk.Cols[j]]
					}
				}
			}
		}
		if in.Aim || in.K[0]%3 == 1 {
			r.aim(ts, td, row, in.K[1]+in.K[2])
		}
		r.doWrite(ts, in, &logOp{Kind: "output", Table: td.Name, New: row}, 0)
	case "update", "delete":
		ts := r.tranOf(in)
		if !ts.isUpdate() || r.deadOp(ts, in) {
			return
		}
		td := ts.w.Tables[in.T%len(ts.w.Tables)]
		rows := ts.view.rows(td.Name)
		if len(rows) == 0 {
			return
		}
		// prefer rows that are referenced by source rows (block / cascade paths)
		if in.K[0]%3 != 0 {
			var refd []Row
			for _, row := range rows {
				if hasSources(ts.w, ts.view, td, row) {
					refd = append(refd, row)
				}
			}
			if len(refd) > 0 {
				rows = refd
			}
		}
		if in.Aim {
			// prefer a target row that became referenced by a source row
			// committed after this transaction started
			var newly []Row
			for _, row := range ts.view.rows(td.Name) {
				if hasSources(r.w, r.committed, td, row) && !hasSources(ts.w, ts.view, td, row) {
					newly = append(newly, row)
				}
			}
			if len(newly) > 0 {
				rows = newly
				r.label("target_change_aimed_at_newly_referenced_row")
			}
		}
		if in.Aim && in.Op == "delete" && len(rows) > 0 && !hasSources(r.w, r.committed, td, rows[0]) {
			// delete a row that another open transaction has read
			var seen []Row
			for _, o := range r.slots {
				if o == nil || o == ts || !o.isUpdate() || o.dead {
					continue
				}
				for _, e := range o.events {
					if e.read != nil && e.read.Table == td.Name {
						for _, g := range e.read.Got {
							if cur, ok := ts.view[td.Name][pkOf(td, g)]; ok && cur.eq(g) {
								seen = append(seen, g)
							}
						}
					}
				}
			}
			if len(seen) > 0 {
				rows = seen
				r.label("deletes_aimed_at_rows_read_by_other_transaction")
			}
		}
		stale := in.K[0]%4 == 3
		if stale {
			// prefer a row this transaction has already updated
			var upd []Row
			for _, row := range ts.view.rows(td.Name) {
				if _, ok := ts.staleOff[td.Name+"\x00"+pkOf(td, row)]; ok {
					upd = append(upd, row)
				}
			}
			if len(upd) > 0 {
				rows = upd
			}
		}
		old := rows[in.K[0]%len(rows)]
		// a row must be read before it can be changed: look it up by its first key
		rd, rec, err := r.doLookupKey(ts, td, 0, td.Idx[0].key(old))
		if err != "" {
			r.opFailed(ts, in, err)
			return
		}
		r.checkRead(ts, rd)
		if rec == nil {
			r.violate("internal: row vanished after checkRead", "C02")
		}
		op := &logOp{Kind: in.Op, Table: td.Name, Old: old}
		if in.Op == "update" {
			nw := old.clone()
			vals := rowFromK(in.K[1:], len(td.Cols))
			for c := range nw {
				if in.N&(1<<c) != 0 {
					nw[c] = vals[c]
				}
			}
			if in.Aim || in.K[1]%3 == 1 {
				// move the row into a range another transaction has read,
				// keeping its first key (only secondary index columns change)
				aimed := nw.clone()
				if r.aim(ts, td, aimed, in.K[2]+in.K[3]) {
					for _, c := range td.Idx[0].Cols {
						aimed[c] = old[c]
					}
					nw = aimed
					defer func() {
						if ts.dead && strings.Contains(ts.why, "conflict") {
							r.label("aimed_update_aborted_by_conflict")
						} else if !ts.dead {
							r.label("aimed_update_went_through")
						}
					}()
				}
			}
			op.New = nw
		}
		off := rec.Off
		if stale {
			// write through a stale record: the offset the row had before this
			// transaction's own earlier update of it (what code holding on to
			// an old record does). The engine refuses that; the refusal must
			// kill the transaction or leave its view untouched.
			if so, ok := ts.staleOff[td.Name+"\x00"+pkOf(td, old)]; ok && so != off {
				same := false
				if in.Op == "update" {
					catch(func() { same = string(recOf(op.New, in.Trim)) == string(ts.ut.GetRecord(so)) })
				}
				if !same {
					r.logf("  #%d next write goes through stale offset %d (current %d)", ts.id, so, off)
					off = so
					r.label("write_through_stale_offset")
				}
			}
		}
		r.doWrite(ts, in, op, off)
	case "complete":
		ts := r.slots[in.S]
		if ts == nil {
			return
		}
		r.complete(ts, in.S)
	case "abort":
		ts := r.slots[in.S]
		if ts == nil {
			return
		}
		var res string
		if ts.isUpdate() {
			res = ts.ut.Abort()
		} else {
			res = ts.rt.Abort()
		}
		r.logf("  #%d abort -> %q", ts.id, res)
		r.syncChecker()
		r.nAbort++
		r.slots[in.S] = nil
		r.verifyCommitted(fmt.Sprintf("after abort of #%d", ts.id))
		if ts.isUpdate() {
			r.mustBeDead(ts)
		}
	case "reread":
		ts := r.slots[in.S]
		if ts == nil || ts.dead {
			return
		}
		r.reread(ts)
	case "persist":
		err := catch(func() { r.db.Persist() })
		if err != "" {
			r.violate("Persist panicked: "+err, "C03", "C16")
		}
		r.nPersist++
		r.logf("  persist")
	case "mergesync":
		catch(func() { r.db.RunExclusive("zz_sync", func() {}) })
		r.commitsSinceDrain = 0
		r.logf("  mergesync")
	case "tick":
		r.db.VerifTick()
		r.syncChecker()
		r.logf("  tick")
		for _, ts := range r.slots {
			if ts != nil && ts.isUpdate() && !ts.dead {
				if f := ts.ut.VerifFailure(); f != "" {
					r.noteFailure(ts, f)
				}
			}
		}
	case "admin":
		r.doAdmin(in)
	case "trigoff":
		td := r.w.Tables[in.T%len(r.w.Tables)]
		r.db.DisableTrigger(td.Name)
		r.trigOff[td.Name]++
		r.logf("  disable trigger %s (%d)", td.Name, r.trigOff[td.Name])
	case "trigon":
		td := r.w.Tables[in.T%len(r.w.Tables)]
		if r.trigOff[td.Name] > 0 {
			r.db.EnableTrigger(td.Name)
			r.trigOff[td.Name]--
			r.logf("  enable trigger %s (%d)", td.Name, r.trigOff[td.Name])
		}
	case "action":
		ts := r.tranOf(in)
		if !ts.isUpdate() || r.deadOp(ts, in) {
			return
		}
		r.doAction(ts, in)
	}
}

func litOf(raw string) string {
	if raw == "" {
		return `""`
	}
	return core.Unpack(raw).String()
}

// doAction runs a delete / update statement through the query language
// (the third way rows change, besides the transaction API and cascades).
func (r *run) doAction(ts *tranState, in Instr) {
	td := ts.w.Tables[in.T%len(ts.w.Tables)]
	v := valOf(in.K[0])
	var stmt string
	col := td.Cols[1+in.N%(len(td.Cols)-1)]
	nv := valOf(in.K[1])
	if in.Upd {
		stmt = fmt.Sprintf("delete %s where a is %s", td.Name, litOf(v))
	} else {
		stmt = fmt.Sprintf("update %s where a is %s set %s = %s", td.Name, litOf(v), col, litOf(nv))
	}
	// model: the rows with a == v, one after another
	tmp := ts.view.clone()
	var chs []change
	var ref *Refusal
	var ops []*logOp
	for _, row := range ts.view.rows(td.Name) {
		if row[0] != v {
			continue
		}
		if _, ok := tmp[td.Name][pkOf(td, row)]; !ok {
			continue // already removed by a cascade of an earlier row
		}
		var c []change
		op := &logOp{Kind: "delete", Table: td.Name, Old: row}
		if in.Upd {
			ref, c = ts.w.Delete(tmp, td.Name, row)
		} else {
			nw := row.clone()
			nw[td.colPos(col)] = nv
			op = &logOp{Kind: "update", Table: td.Name, Old: row, New: nw}
			if selfRefKeyAndFk(td, row, nw) {
				return
			}
			ref, c = ts.w.Update(tmp, td.Name, row, nw)
		}
		if ref != nil {
			break
		}
		chs = append(chs, c...)
		ops = append(ops, op)
	}
	trigBefore := len(r.triglog)
	n := 0
	err := catch(func() { n = query.DoAction(thread, ts.ut, stmt) })
	r.logf("  #%d action %q : model %v (%d changes), real %q n=%d", ts.id, stmt, ref, len(chs), err, n)
	r.syncChecker()
	r.nAction++
	if ref == nil {
		if r.checkTriggers(ts, fmt.Sprintf("transaction #%d %q", ts.id, stmt), trigBefore, chs, err != "") {
			if strings.Contains(err, trigBoom) {
				r.abortAfterTrigger(ts)
				return
			}
			if err == "" {
				r.violate(fmt.Sprintf("transaction #%d: %q: succeeded although a trigger must have thrown", ts.id, stmt), "C44")
			}
			// failed for another reason before the trigger ran: rolled back below
			r.label("trigger_throw_preempted_by_other_failure")
		}
	}
	if err != "" || ref != nil {
		// a statement that fails part way is rolled back by its caller here
		if err == "" && ref != nil {
			prop := "C07"
			if ref.Kind == "fk" {
				prop = "C08"
			}
			r.violate(fmt.Sprintf("transaction #%d: %q succeeded but must be refused (%v)", ts.id, stmt, ref), prop)
		}
		r.abortAfterTrigger(ts)
		return
	}
	ts.view = tmp
	for _, op := range ops {
		ts.events = append(ts.events, event{op: op})
		ts.nops++
	}
	r.verifyOwnView(ts, "after "+stmt, "C24", "C08", "C06")
	r.afterOp(ts)
}

// abortAfterTrigger: the caller of an operation whose trigger threw does not
// swallow the exception: the transaction is rolled back; nothing of it may be
// visible afterwards.
func (r *run) abortAfterTrigger(ts *tranState) {
	ts.ut.Abort()
	r.syncChecker()
	for i, x := range r.slots {
		if x == ts {
			r.slots[i] = nil
		}
	}
	ts.dead, ts.why = true, "trigger exception"
	r.logf("  #%d rolled back after trigger exception", ts.id)
	r.verifyCommitted(fmt.Sprintf("after rollback of #%d (trigger exception)", ts.id))
}

// deadOp: an operation on a transaction that has failed must fail too.
// Returns true if the slot was dead (and is now cleared).
func (r *run) deadOp(ts *tranState, in Instr) bool {
	if !ts.dead {
		return false
	}
	r.mustBeDead(ts)
	r.slots[in.S] = nil
	return true
}

func (r *run) mustBeDead(ts *tranState) {
	if !ts.isUpdate() {
		return
	}
	// (an abort is asynchronous: the transaction is failed once the checker
	// has processed the message, so wait for that even in async programs)
	r.db.Final()
	td := ts.w.Tables[0]
	row := rowFromK([]int{1, 2, 3, 4}, len(td.Cols))
	err := catch(func() { ts.ut.Lookup(td.Name, 0, td.Idx[0].key(row)) })
	if err == "" {
		r.violate(fmt.Sprintf("transaction #%d failed (%s) but a later lookup on it succeeded", ts.id, ts.why), "C03")
	}
	err = catch(func() { ts.ut.Output(thread, td.Name, recOf(row, true)) })
	if err == "" {
		r.violate(fmt.Sprintf("transaction #%d failed (%s) but a later output on it succeeded", ts.id, ts.why), "C03")
	}
	if res := ts.ut.Complete(); res == "" {
		r.violate(fmt.Sprintf("transaction #%d failed (%s) but a later Complete reported success", ts.id, ts.why), "C03")
	}
	r.nDeadOpChecked++
	r.syncChecker()
	r.verifyCommitted(fmt.Sprintf("after operations on failed transaction #%d", ts.id))
}

func (r *run) opFailed(ts *tranState, in Instr, err string) {
	r.logf("  #%d %s failed: %s", ts.id, in.Op, err)
	if isTranEnded(err) || (ts.isUpdate() && ts.ut.VerifFailure() != "") {
		f := err
		if ts.isUpdate() && ts.ut.VerifFailure() != "" {
			f = ts.ut.VerifFailure()
		}
		r.noteFailure(ts, f)
		return
	}
	if strings.Contains(err, "runtime error") || strings.Contains(err, "assert") {
		r.violate(fmt.Sprintf("transaction #%d: %v crashed: %s", ts.id, in, err), "C03", "C06")
	}
}

func (r *run) doScan(ts *tranState, in Instr) {
	td := ts.w.Tables[in.T%len(ts.w.Tables)]
	i := in.I % len(td.Idx)
	ix := &td.Idx[i]
	bound := func(k []int) string { return ix.key(rowFromK(k, len(td.Cols))) }
	org, end := ixkey.Min, ixkey.Max
	if in.K[0] != 0 {
		org = bound(in.K[0:4])
	}
	if in.K[4] != 0 {
		end = bound(in.K[4:8])
	}
	if org > end {
		org, end = end, org
	}
	if end != ixkey.Max && in.K[5]%2 == 0 {
		end += ixkey.Sep + ixkey.Max // prefix range end, as queries build them
	}
	rd := &readRec{Kind: "scan", Table: td.Name, Idx: i, Org: org, End: end, Dir: in.Dir}
	if in.K[0] != 0 {
		rd.OrgRow = rowFromK(in.K[0:4], len(td.Cols))
	}
	if in.K[4] != 0 {
		rd.EndRow = rowFromK(in.K[4:8], len(td.Cols))
	}
	iter, it, getRec := r.iterFor(ts, td.Name, i)
	iter.Range(index.Range{Org: org, End: end})
	steps := in.N
	mod := in.Op == "scanmod"
	cur := "" // last key seen
	have := false
	for n := 0; steps == 0 || n < steps; n++ {
		var key string
		var off uint64
		var eof bool
		err := catch(func() {
			if in.Dir == 0 {
				iter.Next(it)
			} else {
				iter.Prev(it)
			}
			if eof = iter.Eof(); !eof {
				key, off = iter.Cur()
			}
		})
		if err != "" {
			r.opFailed(ts, in, err)
			return
		}
		// expected next row: least key greater than the current one inside the range, in the *current* view
		keys, rows := ts.view.sortedByIndex(td, i)
		var want Row
		wantKey := ""
		found := false
		if in.Dir == 0 {
			for j, k := range keys {
				if k >= org && k < end && (!have || k > cur) {
					want, wantKey, found = rows[j], k, true
					break
				}
			}
		} else {
			for j := len(keys) - 1; j >= 0; j-- {
				k := keys[j]
				if k >= org && k < end && (!have || k < cur) {
					want, wantKey, found = rows[j], k, true
					break
				}
			}
		}
		if eof {
			rd.Eof = true
			if found {
				r.logf("  #%d %v", ts.id, rd)
				r.violate(fmt.Sprintf("transaction #%d: %v hit eof but its view still has %v (key %q) after %q", ts.id, rd, want, wantKey, cur), "C02", "C06")
			}
			break
		}
		got := rowOf(getRec(off), len(td.Cols))
		if !found || key != wantKey || !got.eq(want) {
			r.logf("  #%d %v", ts.id, rd)
			r.violate(fmt.Sprintf("transaction #%d: %v then returned %v (key %q) but its view has next %v (key %q, found=%v)", ts.id, rd, got, key, want, wantKey, found), "C02", "C06")
		}
		rd.Got = append(rd.Got, got)
		cur, have = key, true
		if mod && n%2 == 0 {
			// change the row under the cursor, as query actions do
			op := &logOp{Kind: "delete", Table: td.Name, Old: got}
			if !in.Upd {
				nw := got.clone()
				c := (in.K[1] + n) % len(nw)
				nw[c] = valOf((in.K[2] + n) % 5)
				op = &logOp{Kind: "update", Table: td.Name, Old: got, New: nw}
			}
			if !r.applyWrite(ts, in, op, off) {
				break
			}
			if ts.dead {
				break
			}
		}
	}
	if !mod || len(rd.Got) > 0 {
		// the scan as a whole is one read event only when nothing was modified
		// in between (otherwise each step was already judged against the view)
		if !mod {
			ts.events = append(ts.events, event{read: rd})
		}
	}
	r.logf("  #%d %v", ts.id, rd)
	if in.Dir == 1 {
		r.nScanBack++
	}
	if !rd.Eof {
		r.nScanPartial++
	}
	r.afterOp(ts)
}

func (r *run) doWrite(ts *tranState, in Instr, op *logOp, off uint64) {
	r.applyWrite(ts, in, op, off)
}

// applyWrite performs one logical write on the real transaction and on the
// model. Returns false if the transaction cannot continue.
func (r *run) applyWrite(ts *tranState, in Instr, op *logOp, off uint64) bool {
	if op.Kind == "update" && selfRefKeyAndFk(ts.w.table(op.Table), op.Old, op.New) {
		if e, ok := kf.Known("C08", "selfref-update-key-and-fk"); ok {
			r.cfg.Rec.Excluded("selfref-update-key-and-fk")
			if r.cfg.Own["C08"] {
				r.cfg.Rec.Known(e.What)
			}
			return true
		}
	}
	tmp := ts.view.clone()
	var ref *Refusal
	var chs []change
	switch op.Kind {
	case "output":
		ref, chs = ts.w.Output(tmp, op.Table, op.New)
	case "update":
		ref, chs = ts.w.Update(tmp, op.Table, op.Old, op.New)
	case "delete":
		ref, chs = ts.w.Delete(tmp, op.Table, op.Old)
	}
	// an update to a byte-identical record is a no-op for the database (it is
	// not a write: the transaction stays read-only if it has no other writes)
	identical := false
	if op.Kind == "update" {
		if e := catch(func() { identical = string(recOf(op.New, in.Trim)) == string(ts.ut.GetRecord(off)) }); e != "" {
			identical = false
		}
	}
	trigBefore := len(r.triglog)
	err := catch(func() {
		switch op.Kind {
		case "output":
			ts.ut.Output(thread, op.Table, recOf(op.New, in.Trim))
		case "update":
			ts.ut.Update(thread, op.Table, off, recOf(op.New, in.Trim))
		case "delete":
			ts.ut.Delete(thread, op.Table, off)
		}
	})
	r.logf("  #%d %v : model %v, real %q", ts.id, op, ref, err)
	r.syncChecker()
	if ref == nil {
		if r.checkTriggers(ts, fmt.Sprintf("transaction #%d %v", ts.id, op), trigBefore, chs, err != "") {
			// the model says a trigger throws during this operation
			if strings.Contains(err, trigBoom) {
				r.abortAfterTrigger(ts)
				return false
			}
			if err == "" {
				r.violate(fmt.Sprintf("transaction #%d: %v: succeeded although its trigger must have thrown", ts.id, op), "C44")
			}
			// refused or failed for another reason before the trigger ran
			// (conflict abort, unpredicted refusal): handled as a refusal below
			r.label("trigger_throw_preempted_by_other_failure")
		}
	}
	if err == "" {
		if ref != nil {
			prop := "C07"
			if ref.Kind == "fk" {
				prop = "C08"
			}
			r.violate(fmt.Sprintf("transaction #%d: %v succeeded but must be refused (%v)", ts.id, op, ref), prop)
		}
		if op.Kind == "update" && !identical {
			if td := ts.w.table(op.Table); td != nil {
				if ts.staleOff == nil {
					ts.staleOff = map[string]uint64{}
				}
				ko, kn := op.Table+"\x00"+pkOf(td, op.Old), op.Table+"\x00"+pkOf(td, op.New)
				first := off
				if so, ok := ts.staleOff[ko]; ok {
					first = so
					delete(ts.staleOff, ko)
				}
				ts.staleOff[kn] = first
			}
		}
		ts.view = tmp
		if !identical {
			ts.events = append(ts.events, event{op: op})
			ts.nops++
		}
		if len(chs) > 1 {
			r.nCascade++
		}
		if f := ts.ut.VerifFailure(); f != "" {
			r.noteFailure(ts, f)
			return false
		}
		props := []string{"C06", "C03", "C02"}
		if len(chs) > 1 {
			props = []string{"C08", "C06", "C02"}
		} else if td := ts.w.table(op.Table); td != nil && fkInvolved(td) {
			// a change of a row of a table with foreign keys that has other
			// effects than the model predicts (e.g. a cascade that should not
			// have happened) is also a foreign key rule violation
			props = append(props, "C08")
		}
		r.verifyOwnView(ts, "after "+op.String(), props...)
		return true
	}
	// refused or failed
	if ref != nil {
		if ref.Kind == "dup" {
			r.nRefusedDup++
		} else {
			r.nRefusedFk++
			if strings.Contains(ref.Why, "blocked by") {
				r.label("refused_target_change_with_sources")
			}
		}
	}
	// (a refusal raised inside a cascade aborts the transaction, and an abort
	// is asynchronous: in async programs wait until the checker has processed
	// it before asking whether the transaction is still alive)
	if r.prog != nil && r.prog.Async {
		r.db.Final()
	}
	if f := ts.ut.VerifFailure(); f != "" || isTranEnded(err) {
		if f == "" {
			f = err
		}
		r.noteFailure(ts, f)
		return false
	}
	if strings.Contains(err, "runtime error") || strings.Contains(err, "assert") {
		r.violate(fmt.Sprintf("transaction #%d: %v crashed: %s", ts.id, op, err), "C03", "C06")
	}
	if ref == nil {
		r.nUnexpectedRefusal++
		r.label("unexpected_refusal:" + firstWords(err, 3))
	}
	// a refused operation must leave the transaction's view unchanged
	r.verifyOwnView(ts, "after refused "+op.String(), "C06", "C03", "C08", "C02")
	return true
}

func firstWords(s string, n int) string {
	f := strings.Fields(s)
	if len(f) > n {
		f = f[:n]
	}
	return strings.Join(f, " ")
}

func (r *run) reread(ts *tranState) {
	for _, td := range ts.w.Tables {
		if got := ts.schemaOf(td.Name); got != ts.schemas[td.Name] {
			r.label("schema_changed_within_transaction")
			r.violate(fmt.Sprintf("transaction #%d: the definition of %s was %q when the transaction began and is %q now", ts.id, td.Name, ts.schemas[td.Name], got), "C02")
		}
	}
	if r.nAdminOK > 0 {
		r.label("reread_after_accepted_admin_request")
	}
	for _, e := range ts.events {
		if e.read == nil {
			continue
		}
		old := e.read
		td := ts.w.table(old.Table)
		var rd *readRec
		if old.Kind == "lookup" {
			var err string
			rd, _, err = r.doLookupKey(ts, td, old.Idx, old.Key)
			if err != "" {
				r.opFailed(ts, Instr{Op: "reread"}, err)
				return
			}
		} else {
			rd = &readRec{Kind: "scan", Table: old.Table, Idx: old.Idx, Org: old.Org, End: old.End, Dir: old.Dir}
			iter, it, getRec := r.iterFor(ts, td.Name, old.Idx)
			iter.Range(index.Range{Org: old.Org, End: old.End})
			err := catch(func() {
				for n := 0; n < len(old.Got)+1; n++ {
					if old.Dir == 0 {
						iter.Next(it)
					} else {
						iter.Prev(it)
					}
					if iter.Eof() {
						rd.Eof = true
						break
					}
					if n == len(old.Got) {
						break
					}
					_, off := iter.Cur()
					rd.Got = append(rd.Got, rowOf(getRec(off), len(td.Cols)))
				}
			})
			if err != "" {
				r.opFailed(ts, Instr{Op: "reread"}, err)
				return
			}
			if !old.Eof {
				rd.Eof = false
			}
		}
		model, _ := evalRead(ts.w, ts.view, rd)
		if !readMatches(rd, model) {
			r.violate(fmt.Sprintf("transaction #%d: repeated %v differs from its snapshot+own changes %v (first time: %v)", ts.id, rd, model, old), "C02")
		}
		if !ts.isUpdate() && (!rowsEq(rd.Got, old.Got) || rd.Eof != old.Eof) {
			r.violate(fmt.Sprintf("read transaction #%d: repeated read %v differs from first read %v", ts.id, rd, old), "C02")
		}
	}
	r.label("reread")
	r.afterOp(ts)
}

func (r *run) complete(ts *tranState, slot int) {
	r.slots[slot] = nil
	if !ts.isUpdate() {
		ts.rt.Complete()
		return
	}
	wasDead := ts.dead
	var res string
	err := catch(func() { res = ts.ut.Complete() })
	if err != "" {
		r.violate(fmt.Sprintf("Complete of #%d panicked: %s", ts.id, err), "C03")
	}
	r.syncChecker()
	r.logf("  #%d complete -> %q", ts.id, res)
	if res != "" {
		r.nCommitFail++
		if strings.Contains(res, "conflict") && !wasDead {
			r.nConflict++
		}
		r.verifyCommitted(fmt.Sprintf("after failed completion of #%d (%s)", ts.id, res))
		ts.dead, ts.why = true, res
		r.mustBeDead(ts)
		return
	}
	if wasDead {
		r.violate(fmt.Sprintf("transaction #%d had failed (%s) but Complete reported success", ts.id, ts.why), "C03")
	}
	r.nCommitOK++
	if ts.nops > 0 && r.pz != nil && r.pz.isPaused() != "" {
		r.queuedWhilePaused++
	}
	if ts.nops > 0 && r.pz != nil {
		r.commitsSinceDrain++
	}
	if ts.nops > 0 {
		// C01: serial replay at the commit point
		if ts.snap.String() != r.committed.String() {
			r.nOverlapCommit++
		}
		m := r.committed.clone()
		for _, e := range ts.events {
			if e.read != nil {
				model, _ := evalRead(ts.w, m, e.read)
				if !readMatches(e.read, model) {
					r.violate(fmt.Sprintf("transaction #%d committed, but at its commit point (after all earlier commits) %v would have returned %v", ts.id, e.read, model), "C01")
				}
				continue
			}
			var ref *Refusal
			switch e.op.Kind {
			case "output":
				ref, _ = r.w.Output(m, e.op.Table, e.op.New)
			case "update":
				if _, ok := m[e.op.Table][pkOf(r.w.table(e.op.Table), e.op.Old)]; !ok {
					ref = &Refusal{"lost", "row to update no longer exists"}
				} else {
					ref, _ = r.w.Update(m, e.op.Table, e.op.Old, e.op.New)
				}
			case "delete":
				if _, ok := m[e.op.Table][pkOf(r.w.table(e.op.Table), e.op.Old)]; !ok {
					ref = &Refusal{"lost", "row to delete no longer exists"}
				} else {
					ref, _ = r.w.Delete(m, e.op.Table, e.op.Old)
				}
			}
			if ref != nil {
				props := []string{"C01"}
				if ref.Kind == "dup" {
					props = append(props, "C07")
				}
				if ref.Kind == "fk" {
					props = append(props, "C08")
				}
				r.violate(fmt.Sprintf("transaction #%d committed, but run serially at its commit point %v is impossible: %v", ts.id, e.op, ref), props...)
			}
		}
		r.committed = m
	}
	r.verifyCommitted(fmt.Sprintf("after commit of #%d", ts.id))
}

var adminCols = [][]string{{"d"}, {"c"}, {"b"}, {"c", "d"}, {"b", "d"}, {"d", "a"}}

func (r *run) doAdmin(in Instr) {
	td := r.w.Tables[in.T%len(r.w.Tables)]
	cs := adminCols[in.K[0]%len(adminCols)]
	kind := "index"
	if in.K[1] == 0 {
		kind = "index unique"
	}
	cmd := fmt.Sprintf("alter %s create %s(%s)", td.Name, kind, strings.Join(cs, ","))
	// model: must be refused if the index exists or (unique) duplicates exist
	err := tryAdmin(r.db, cmd)
	r.logf("  admin %q -> %q", cmd, err)
	r.syncChecker()
	if err == "" {
		r.nAdminOK++
		r.w = loadWorld(r.db, r.names)
		if kind == "index unique" {
			c07, _ := r.w.Invariants(r.committed)
			if c07 != "" {
				r.violate(fmt.Sprintf("%q succeeded although %s", cmd, c07), "C07")
			}
		}
	}
	for _, ts := range r.slots {
		if ts != nil && ts.isUpdate() && !ts.dead {
			if f := ts.ut.VerifFailure(); f != "" {
				r.noteFailure(ts, f)
			}
		}
	}
	r.verifyCommitted("after " + cmd)
}

// ---------------------------------------------------------------- one case

// journalPath: the program is written before it runs so that a process
// death (log.Fatal in the checker/merger goroutines) leaves a replay file.
func journalPath() string {
	d := os.Getenv("VERIF_REPLAY_OUT")
	if d == "" {
		return ""
	}
	return d + "/journal-current.json"
}

type Stats struct {
	NonTrivial bool
	Labels     map[string]int
	Canon      string
	Log        []string
}

// RunProgram executes one program in deterministic mode. It returns the
// violation (nil if none) and statistics.
func RunProgram(p Program, cfg Config) (viol *Violation, st Stats) {
	if jp := journalPath(); jp != "" {
		b, _ := json.Marshal(p)
		os.WriteFile(jp, b, 0o644)
		defer os.Remove(jp)
	}
	curDomain = p.Domain
	defer func() { curDomain = nil }()
	// a fresh interpreter thread per case: a trigger that throws leaves values
	// on the thread's stack (nothing unwinds it outside the interpreter), and
	// after ~1500 cases in one process the 1024-slot stack overflowed
	thread = &core.Thread{}
	oldAge := db19.MaxAge
	db19.MaxAge = p.MaxAge
	db19.VerifAbortT1(true)
	defer func() { db19.MaxAge = oldAge }()

	r := &run{cfg: cfg, labels: map[string]int{}, committed: MDB{}}
	if cfg.PauseMerger {
		r.pz = newPauser()
		hook := r.pz.hook
		db19.VerifPoint.Store(&hook)
		defer db19.VerifPoint.Store(nil)
		sf := func(s *db19.DbState) {
			r.stateMu.Lock()
			r.newStates = append(r.newStates, s)
			r.stateMu.Unlock()
		}
		db19.VerifStateUpdated.Store(&sf)
		defer db19.VerifStateUpdated.Store(nil)
		r.db = db19.CreateDb(stor.HeapStor(8192))
		db19.StartConcur(r.db, time.Millisecond) // ticker-driven persists race with commits
	} else {
		r.db = newDb()
	}
	var states []*db19.DbState
	if cfg.CheckStates {
		// called under the database's state mutex by whichever goroutine
		// publishes a state (checker, merger); read by the case's goroutine
		f := func(s *db19.DbState) {
			r.stateMu.Lock()
			states = append(states, s)
			r.stateMu.Unlock()
		}
		db19.VerifStateUpdated.Store(&f)
		defer db19.VerifStateUpdated.Store(nil)
	}
	defer func() {
		if e := recover(); e != nil {
			v, ok := e.(*Violation)
			if !ok {
				if msg := fmt.Sprint(e); strings.HasPrefix(msg, "harness:") || r.db == nil || r.w == nil {
					panic(e)
				}
				// the engine panicked under the harness's own reads of a view
				// or state (e.g. "OverIter Cur deleted"): what a reader sees is
				// not a consistent set of index entries
				v = &Violation{Props: []string{"C06", "C03"},
					Msg: fmt.Sprintf("engine panicked while a view / state was read back: %v\n%s", e, debug.Stack())}
			}
			viol = v
			st.Log = r.log
		}
		// close in any case; a wedged pipeline is reported by the test timeout
		if r.pz != nil {
			r.pz.releaseNow()
		}
		catch(func() {
			for _, ts := range r.slots {
				if ts != nil && ts.isUpdate() {
					ts.ut.Abort()
				}
			}
			r.db.Close()
		})
	}()
	for _, s := range p.Schemas {
		if err := tryAdmin(r.db, s); err != "" {
			panic("harness: schema refused: " + s + ": " + err)
		}
		r.names = append(r.names, strings.Fields(s)[1])
		r.committed[strings.Fields(s)[1]] = MTable{}
	}
	r.w = loadWorld(r.db, r.names)
	r.slots = make([]*tranState, 8)
	r.prog = &p
	r.trigOff = map[string]int{}
	if len(p.Trig) > 0 {
		defer r.installTriggers()()
	}
	for i, in := range p.Instrs {
		r.logf("%d: %v", i, in)
		before := r.committed
		r.exec(in)
		if r.pz != nil {
			r.syncChecker()
			r.judgeStates(before, r.committed)
		}
		if cfg.CheckStates && len(states) > 0 {
			r.syncChecker()
			r.stateMu.Lock()
			ss := states
			states = nil
			r.stateMu.Unlock()
			r.checkStates(ss)
		}
	}
	// end: everything still open is aborted, the final state must equal the model
	for s, ts := range r.slots {
		if ts != nil {
			if ts.isUpdate() {
				ts.ut.Abort()
			}
			r.slots[s] = nil
		}
	}
	if r.pz != nil {
		r.releaseMerger()
		r.mergerBarrier()
		r.judgeStates(r.committed, r.committed)
	}
	r.syncChecker()
	r.verifyCommitted("at end")
	if err := catch(func() {
		if e := r.db.Check(true); e != nil {
			panic(e.Error())
		}
	}); err != "" {
		// The repo's full check reports "foreign key not found" for an all-empty
		// composite foreign key under a non-unique index (TruncFunc of the source
		// key yields "\0\0" instead of ""): a defect of the checker itself, outside
		// the listed properties. The model has already verified the foreign keys.
		if strings.Contains(err, "foreign key not found") {
			r.label("fullcheck_false_alarm_empty_composite_fk")
		} else {
			r.violate("full database check at end: "+err, "C06", "C03")
		}
	}
	st.Labels = r.labels
	l := st.Labels
	l["commit_ok"] = r.nCommitOK
	l["commit_failed"] = r.nCommitFail
	l["explicit_abort"] = r.nAbort
	l["conflict_abort"] = r.nConflict
	l["commit_overlapping_other_commit"] = r.nOverlapCommit
	l["refused_dup"] = r.nRefusedDup
	l["refused_fk"] = r.nRefusedFk
	l["cascade_ops"] = r.nCascade
	l["scan_backward"] = r.nScanBack
	l["scan_partial"] = r.nScanPartial
	l["persist"] = r.nPersist
	l["admin_ok"] = r.nAdminOK
	l["maxage_abort"] = r.nMaxAge
	l["exclusive_abort"] = r.nExclusive
	l["dead_tran_ops_checked"] = r.nDeadOpChecked
	l["unexpected_refusal"] = r.nUnexpectedRefusal
	l["trigger_calls"] = r.nTrigCalls
	l["trigger_threw"] = r.nTrigThrow
	l["trigger_cascaded_calls"] = r.nTrigCascade
	l["trigger_suppressed_while_disabled"] = r.nTrigDisabled
	l["query_actions"] = r.nAction
	l["merge_held_between_compute_and_apply"] = r.nPausedMerge
	l["persist_held_between_compute_and_apply"] = r.nPausedPersist
	l["commit_landed_between_compute_and_apply"] = r.nAppliedAfterCommit
	st.Log = r.log
	return nil, st
}

// Canon renders a program canonically (for the distinct count).
func (p Program) Canon() string {
	b, _ := json.Marshal(p)
	return string(b)
}

// Draw is used by tests: draws a program with rapid.
func Draw(t *rapid.T, o GenOpts) Program { return genProgram(t, o) }

// selfRefKeyAndFk: a single update of a row of a self-referencing table that
// changes the row's own referenced key and at the same time points its
// foreign key at the old key value (known finding C08/selfref-update-key-and-fk).
func selfRefKeyAndFk(td *TableDef, old, nw Row) bool {
	for i := range td.Idx {
		ix := &td.Idx[i]
		if ix.Fk == nil || ix.Fk.Table != td.Name {
			continue
		}
		oldKey, newKey := pick(old, ix.Fk.Cols), pick(nw, ix.Fk.Cols)
		newFk := ix.tuple(nw)[:len(ix.Fk.Cols)]
		if !tupleEq(oldKey, newKey) && !tupleEmpty(newFk) && tupleEq(newFk, oldKey) {
			return true
		}
	}
	return false
}

func hasSources(w *World, m MDB, td *TableDef, row Row) bool {
	for i := range td.Idx {
		ix := &td.Idx[i]
		key := ix.tuple(row)
		if tupleEmpty(key) {
			continue
		}
		for j := range ix.FkToHere {
			if len(sourcesOf(m, &ix.FkToHere[j], key)) > 0 {
				return true
			}
		}
	}
	return false
}

// ---------------------------------------------------------------- paused merger (C16)

// pauser holds the merger goroutine at a named hook point.
type pauser struct {
	mu      sync.Mutex
	armed   map[string]bool
	paused  string        // name of the point the merger is held at ("" = running)
	reached chan struct{} // signalled when the merger arrives at an armed point
	release chan struct{}
}

func newPauser() *pauser {
	return &pauser{armed: map[string]bool{}, reached: make(chan struct{}, 4)}
}

// hook runs in the merger goroutine.
func (p *pauser) hook(name string) {
	p.mu.Lock()
	if !p.armed[name] {
		p.mu.Unlock()
		return
	}
	p.armed[name] = false
	p.paused = name
	p.release = make(chan struct{})
	rel := p.release
	p.mu.Unlock()
	select {
	case p.reached <- struct{}{}:
	default:
	}
	<-rel
}

func (p *pauser) arm(name string) {
	p.mu.Lock()
	p.armed[name] = true
	p.mu.Unlock()
}

func (p *pauser) isPaused() string {
	p.mu.Lock()
	defer p.mu.Unlock()
	return p.paused
}

// waitPaused waits (bounded) until the merger is held; returns the point name.
func (p *pauser) waitPaused(d time.Duration) string {
	if n := p.isPaused(); n != "" {
		return n
	}
	select {
	case <-p.reached:
	case <-time.After(d):
	}
	return p.isPaused()
}

func (p *pauser) releaseNow() bool {
	p.mu.Lock()
	defer p.mu.Unlock()
	for k := range p.armed {
		p.armed[k] = false
	}
	if p.paused == "" {
		return false
	}
	p.paused = ""
	close(p.release)
	return true
}

// releaseMerger lets the merger continue and waits until it has drained its queue.
func (r *run) releaseMerger() {
	if r.pz == nil {
		return
	}
	if r.pz.releaseNow() {
		r.logf("  release merger")
		if r.queuedWhilePaused > 0 {
			r.nAppliedAfterCommit++
		}
	}
	r.queuedWhilePaused = 0
}

// mergerBarrier: round trip through checker and merger (only when not paused).
func (r *run) mergerBarrier() {
	if r.pz != nil && r.pz.isPaused() != "" {
		return
	}
	catch(func() { r.db.RunExclusive("zz_sync", func() {}) })
	r.commitsSinceDrain = 0
}

// stateContent compares the logical content of one published state with a
// model; returns "" if equal.
func (r *run) stateContent(st *db19.DbState, m MDB) string {
	rt := r.db.VerifReadTranAt(st)
	for _, td := range r.w.Tables {
		sc := rt.VerifMeta().GetRoSchema(td.Name)
		if sc == nil || len(sc.Indexes) != len(td.Idx) {
			return "" // state of another schema version: not judged here
		}
	}
	for _, td := range r.w.Tables {
		ti := rt.GetInfo(td.Name)
		var nrows int
		var size int64
		for i := range td.Idx {
			rows := scanAll(rt, func() index.IndexIter { return rt.IndexIter(td.Name, i) }, rt.GetRecord)
			var got []Row
			for j, dr := range rows {
				if j > 0 && !(rows[j-1].key < dr.key) {
					return fmt.Sprintf("%s index %d: keys not strictly increasing (%q then %q)", td.Name, i, rows[j-1].key, dr.key)
				}
				got = append(got, rowOf(dr.rec, len(td.Cols)))
				if i == 0 {
					size += int64(dr.rec.Len())
				}
			}
			if i == 0 {
				nrows = len(rows)
			}
			_, want := m.sortedByIndex(td, i)
			if !rowsEq(got, want) {
				return fmt.Sprintf("%s via index %d (%s) holds %v, serial model has %v", td.Name, i, strings.Join(td.Idx[i].ColNames, ","), got, want)
			}
		}
		// statistics: layers, deltas, btree + deltas == totals == actual
		if ti.Nrows != nrows || ti.Size != size {
			return fmt.Sprintf("%s: Info.Nrows=%d Size=%d but the state holds %d rows / %d bytes", td.Name, ti.Nrows, ti.Size, nrows, size)
		}
		dn, ds := ti.BtreeNrows, ti.BtreeSize
		for _, d := range ti.Deltas {
			dn += d.Nrows
			ds += d.Size
		}
		if dn != ti.Nrows || ds != ti.Size {
			return fmt.Sprintf("%s: BtreeNrows/Size + deltas = %d/%d but Nrows/Size = %d/%d", td.Name, dn, ds, ti.Nrows, ti.Size)
		}
		for i, ov := range ti.Indexes {
			if ov.Nlayers() != len(ti.Deltas) {
				return fmt.Sprintf("%s index %d has %d layers but the table has %d deltas", td.Name, i, ov.Nlayers(), len(ti.Deltas))
			}
		}
	}
	return ""
}

// judgeStates: every state published during the last operation must hold
// exactly the serial model of the committed transactions: the model before
// the operation, or (once the operation's own commit is in) the model after
// it, never going back.
func (r *run) judgeStates(before, after MDB) {
	r.stateMu.Lock()
	states := r.newStates
	r.newStates = nil
	r.stateMu.Unlock()
	seenAfter := false
	for _, st := range states {
		if !seenAfter {
			if d := r.stateContent(st, before); d == "" {
				r.label("states_judged")
				continue
			} else if before.String() == after.String() {
				r.violate(fmt.Sprintf("a state published by the background merge/persist differs from the committed transactions: %s", d), "C16")
			}
		}
		if d := r.stateContent(st, after); d != "" {
			r.violate(fmt.Sprintf("a published state differs from the serial model both before and after the current commit: %s", d), "C16")
		}
		seenAfter = true
		r.label("states_judged")
	}
}

// aim overwrites the index columns of row with values taken from a read
// range of ANOTHER open update transaction on the same table (its lookup key
// or a scan bound), so that writes land inside ranges other transactions
// have read: the phantom / write-skew situations the conflict checker exists
// for. sel picks the transaction and read. Returns true if aimed.
func (r *run) aim(ts *tranState, td *TableDef, row Row, sel int) bool {
	type cand struct {
		rd  *readRec
		src Row
	}
	var cs []cand
	for _, o := range r.slots {
		if o == nil || o == ts || !o.isUpdate() || o.dead {
			continue
		}
		for _, e := range o.events {
			if e.read == nil || e.read.Table != td.Name || e.read.Idx >= len(td.Idx) {
				continue
			}
			if e.read.OrgRow != nil {
				cs = append(cs, cand{e.read, e.read.OrgRow})
			}
			if e.read.EndRow != nil && e.read.Kind == "scan" {
				cs = append(cs, cand{e.read, e.read.EndRow})
			}
		}
	}
	if len(cs) == 0 {
		return false
	}
	c := cs[sel%len(cs)]
	for _, col := range td.Idx[c.rd.Idx].Cols {
		row[col] = c.src[col]
	}
	r.label("writes_aimed_at_other_transactions_read_range")
	return true
}

func fkInvolved(td *TableDef) bool {
	for i := range td.Idx {
		if td.Idx[i].Fk != nil || len(td.Idx[i].FkToHere) > 0 {
			return true
		}
	}
	return false
}
