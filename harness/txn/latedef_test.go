package txn

import (
	"fmt"
	"strings"
	"sync/atomic"
	"testing"

	"github.com/apmckinlay/gsuneido/core"
	"github.com/apmckinlay/gsuneido/dbms/query"
	"pgregory.net/rapid"
	"verifharness/internal/ev"
	"verifharness/internal/gen"
	"verifharness/internal/rt"
)

// lateDefCounter gives every case its own table (and Trigger_ global) name:
// global names are never forgotten by the process, and the situation of
// interest is a trigger name that was looked up before it was defined and has
// never been referenced otherwise.
var lateDefCounter atomic.Int64

// checkLateDef (C44): a trigger that is DEFINED AFTER its table was first
// changed (the definition arrives through the library loader and
// Global.Unload(name), as saving a library record does) is called from then
// on, once per row change; before its definition nothing is called.
func checkLateDef(t *rapid.T, rec *ev.Rec) {
	n := lateDefCounter.Add(1)
	table := fmt.Sprintf("lt%d", n)
	name := "Trigger_" + table
	db := newDb()
	defer db.Close()
	if e := tryAdmin(db, "create "+table+" (a,b) key(a)"); e != "" {
		t.Fatalf("create: %s", e)
	}
	var calls []string
	defined := false
	fn := &core.SuBuiltin3{Fn: func(a1, a2, a3 core.Value) core.Value {
		calls = append(calls, fmt.Sprint(a2 != core.False, a3 != core.False))
		return nil
	}, BuiltinParams: core.BuiltinParams{ParamSpec: core.ParamSpec{Nparams: 3, Flags: []core.Flag{0, 0, 0}, Names: []string{"t", "oldrec", "newrec"}}}}
	oldLoad := core.Libload
	core.Libload = func(th *core.Thread, nm string) (core.Value, any) {
		if nm == name && defined {
			return fn, nil
		}
		return oldLoad(th, nm)
	}
	defer func() {
		core.Libload = oldLoad
		defined = false
		core.Global.Unload(name)
	}()
	th := &core.Thread{}
	next := 0
	rows := 0
	do := func(kind string) (want string) {
		ut := db.NewUpdateTran()
		var stmt string
		switch {
		case kind == "insert" || rows == 0:
			next++
			stmt = fmt.Sprintf("insert { a: %d, b: 1 } into %s", next, table)
			want = "false true"
			rows++
		case kind == "update":
			stmt = fmt.Sprintf("update %s where a is %d set b = b + 1", table, next)
			want = "true true"
		default:
			stmt = fmt.Sprintf("delete %s where a is %d", table, next)
			want = "true false"
			next--
			rows--
		}
		if e := catch(func() { query.DoAction(th, ut, stmt) }); e != "" {
			t.Fatalf("%s: %s", stmt, e)
		}
		if r := ut.Complete(); r != "" {
			t.Fatalf("%s: commit %s", stmt, r)
		}
		return want
	}
	kinds := []string{"insert", "update", "delete"}
	nb := 1 + gen.Uniform(t, "before", 4)
	for i := 0; i < nb; i++ {
		do(gen.Pick(t, "op", kinds))
	}
	if len(calls) != 0 {
		t.Fatalf("trigger %s called %v before it was defined", name, calls)
	}
	// define it the way a saved library record does
	defined = true
	unloads := gen.Uniform(t, "unloads", 3) // 0: UnloadAll (Use/Unuse), 1-2: Unload(name)
	if unloads == 0 {
		core.Global.UnloadAll()
	} else {
		for i := 0; i < unloads; i++ {
			core.Global.Unload(name)
		}
	}
	na := 1 + gen.Uniform(t, "after", 4)
	var want []string
	for i := 0; i < na; i++ {
		want = append(want, do(gen.Pick(t, "op", kinds)))
	}
	if strings.Join(calls, "|") != strings.Join(want, "|") {
		t.Fatalf("trigger %s defined after %d changes of its table (then Unload x%d): calls (old,new present) %v, want %v", name, nb, unloads, calls, want)
	}
	rec.Case(true, fmt.Sprintf("latedef|%d|%d|%d|%s", nb, unloads, na, strings.Join(want, ",")))
	rec.Label("trigger_defined_after_first_change_of_its_table")
}

func runLateDef(t *testing.T, rec *ev.Rec) {
	rt.Check(t, rec, "latedef", 150, 400, func(t *rapid.T) { checkLateDef(t, rec) })
}
