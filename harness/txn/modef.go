package txn

// Mode F: free-running concurrent histories. 2-6 goroutines run generated
// transaction scripts against one database with a 1 ms persist ticker and the
// checker's random abort choice; nothing is scheduled by the harness. Every
// transaction records what it read and wrote and its checker sequence numbers;
// the oracle runs afterwards on the recorded history (which is the replay
// artefact: the schedule itself cannot be re-created).

import (
	"encoding/hex"
	"encoding/json"
	"fmt"
	"math"
	"os"
	"runtime"
	"sort"
	"strings"
	"sync"
	"sync/atomic"
	"time"

	"github.com/apmckinlay/gsuneido/db19"
	"github.com/apmckinlay/gsuneido/db19/index"
	"github.com/apmckinlay/gsuneido/db19/index/ixkey"
	"github.com/apmckinlay/gsuneido/db19/stor"
	"pgregory.net/rapid"
	"verifharness/internal/gen"
	"verifharness/internal/kf"
)

// FOp is one step of a transaction script.
type FOp struct {
	Op    string `json:"op"` // lookup scan output update delete yield
	T     int    `json:"t"`
	I     int    `json:"i,omitempty"`
	K     []int  `json:"k,omitempty"`
	N     int    `json:"n,omitempty"`
	Dir   int    `json:"dir,omitempty"`
	Sleep int    `json:"sleep,omitempty"` // microseconds before the op
}

type FTran struct {
	Read bool  `json:"read,omitempty"`
	Ops  []FOp `json:"ops"`
	End  int   `json:"end"` // 0 complete, 1 abort
}

type FProgram struct {
	Schemas []string  `json:"schemas"`
	Setup   [][]int   `json:"setup"` // rows (table, k0..k3) inserted by one initial transaction
	Threads [][]FTran `json:"threads"`
	// Admin: exclusive index builds issued by an extra goroutine while the
	// transaction threads run: (table, column set, delay in microseconds)
	Admin [][]int `json:"admin,omitempty"`
}

func genFProgram(t *rapid.T, o GenOpts) FProgram {
	p := FProgram{Schemas: genSchemas(t, o.World)}
	nt := len(p.Schemas)
	vr := o.ValRange
	if vr <= 0 || vr > len(valDomain) {
		vr = 8
	}
	for i, n := 0, gen.Uniform(t, "nsetup", 10); i < n; i++ {
		p.Setup = append(p.Setup, []int{gen.Uniform(t, "t", nt), gen.Uniform(t, "k", vr), gen.Uniform(t, "k", vr), gen.Uniform(t, "k", vr), gen.Uniform(t, "k", vr)})
	}
	ng := 2 + gen.Uniform(t, "nthreads", 5)
	for g := 0; g < ng; g++ {
		var trans []FTran
		for j, n := 0, 1+gen.Uniform(t, "ntrans", 5); j < n; j++ {
			tr := FTran{Read: gen.Chance(t, "readtran", 15)}
			if gen.Chance(t, "abort", 8) {
				tr.End = 1
			}
			for k, m := 0, 1+gen.Uniform(t, "nops", 5); k < m; k++ {
				ops := []string{"lookup", "scan", "output", "output", "update", "delete", "yield"}
				if tr.Read {
					ops = []string{"lookup", "scan", "scan", "yield"}
				}
				op := FOp{Op: gen.Pick(t, "op", ops), T: gen.Uniform(t, "t", nt), I: gen.Uniform(t, "i", 6)}
				home := func() int {
					if gen.Chance(t, "home", 65) {
						return (g*3 + gen.Uniform(t, "kh", 3)) % vr
					}
					return gen.Uniform(t, "k", vr)
				}
				op.K = []int{home(), home(), home(), home(), home(), home(), home(), home()}
				if gen.Chance(t, "open", 20) {
					op.K[0], op.K[4] = 0, 0
				}
				op.N = gen.Uniform(t, "steps", 6)
				op.Dir = gen.Uniform(t, "dir", 2)
				if gen.Chance(t, "sleep", 30) {
					op.Sleep = gen.Uniform(t, "us", 300)
				}
				tr.Ops = append(tr.Ops, op)
			}
			trans = append(trans, tr)
		}
		p.Threads = append(p.Threads, trans)
	}
	if gen.Chance(t, "hasadmin", 35) {
		for i, n := 0, 1+gen.Uniform(t, "nadmin", 2); i < n; i++ {
			p.Admin = append(p.Admin, []int{gen.Uniform(t, "t", nt), gen.Uniform(t, "cols", len(fAdminCols)), gen.Uniform(t, "delay", 1500)})
		}
	}
	return p
}

// non-unique indexes only: they add no constraint, so the model's rules are
// the same before and after the build
var fAdminCols = [][]string{{"d"}, {"c", "d"}, {"d", "b"}, {"b", "d"}, {"d", "c", "a"}}

// ---------------------------------------------------------------- recorded history

type hRow []string // hex of the raw fields

func toH(r Row) hRow {
	if r == nil {
		return nil
	}
	h := make(hRow, len(r))
	for i, f := range r {
		h[i] = hex.EncodeToString([]byte(f))
	}
	return h
}

func fromH(h hRow) Row {
	if h == nil {
		return nil
	}
	r := make(Row, len(h))
	for i, f := range h {
		b, _ := hex.DecodeString(f)
		r[i] = string(b)
	}
	return r
}

type hEvent struct {
	Kind     string `json:"kind"` // lookup scan output update delete
	Table    string `json:"table"`
	Idx      int    `json:"idx,omitempty"`
	Key      string `json:"key,omitempty"` // hex
	Org      string `json:"org,omitempty"`
	End      string `json:"end,omitempty"`
	Dir      int    `json:"dir,omitempty"`
	Got      []hRow `json:"got,omitempty"`
	Eof      bool   `json:"eof,omitempty"`
	Old, New hRow   `json:",omitempty"`
	Err      string `json:"err,omitempty"` // writes: "" = succeeded
	Ident    bool   `json:"ident,omitempty"`
}

type hTran struct {
	Thread int    `json:"thread"`
	Read   bool   `json:"read,omitempty"`
	Start  int    `json:"start"`  // checker sequence (update transactions)
	End    int    `json:"end"`    // 0 = did not commit
	Result string `json:"result"` // Complete() result, "aborted", or "" for success
	// wall-order ticks (one shared counter): read transactions record the tick
	// before and after NewReadTran, writers before and after Complete
	TBefore  int64    `json:"tb,omitempty"`
	TAfter   int64    `json:"ta,omitempty"`
	Events   []hEvent `json:"events"`
	Finished bool     `json:"finished"`
}

type History struct {
	Program FProgram          `json:"program"`
	Trans   []*hTran          `json:"trans"`
	Final   map[string][]hRow `json:"final"` // table -> rows at the end (via index 0)
	Notes   []string          `json:"notes,omitempty"`
}

// ---------------------------------------------------------------- running

type fRunner struct {
	db    *db19.Database
	w     *World
	mu    sync.Mutex
	trans []*hTran
	tick  atomic.Int64
	fatal atomic.Value // string: crash / assertion seen by a worker
}

func hx(s string) string { return hex.EncodeToString([]byte(s)) }

func (fr *fRunner) runTran(g int, ft FTran) {
	h := &hTran{Thread: g, Read: ft.Read}
	fr.mu.Lock()
	fr.trans = append(fr.trans, h)
	fr.mu.Unlock()
	var ut *db19.UpdateTran
	var rt *db19.ReadTran
	if ft.Read {
		h.TBefore = fr.tick.Add(1)
		rt = fr.db.NewReadTran()
		h.TAfter = fr.tick.Add(1)
	} else {
		ut = fr.db.NewUpdateTran()
		if ut == nil {
			h.Result = "NewUpdateTran returned nil"
			return
		}
		h.Start, _ = ut.VerifSeq()
	}
	w := fr.w
	lookup := func(td *TableDef, i int, key string) (*hEvent, uint64, string) {
		e := &hEvent{Kind: "lookup", Table: td.Name, Idx: i, Key: hx(key)}
		var off uint64
		err := catch(func() {
			if ut != nil {
				if r := ut.Lookup(td.Name, i, key); r != nil {
					e.Got = []hRow{toH(rowOf(r.Record, len(td.Cols)))}
					off = r.Off
				}
			} else if r := rt.Lookup(td.Name, i, key); r != nil {
				e.Got = []hRow{toH(rowOf(r.Record, len(td.Cols)))}
			}
		})
		return e, off, err
	}
	dead := false
	for _, op := range ft.Ops {
		if dead {
			break
		}
		if op.Sleep > 0 {
			time.Sleep(time.Duration(op.Sleep) * time.Microsecond)
		}
		td := w.Tables[op.T%len(w.Tables)]
		switch op.Op {
		case "yield":
			runtime.Gosched()
		case "lookup":
			i := op.I % len(td.Idx)
			e, _, err := lookup(td, i, td.Idx[i].key(rowFromK(op.K, len(td.Cols))))
			if err != "" {
				dead = true
				break
			}
			h.Events = append(h.Events, *e)
		case "scan":
			i := op.I % len(td.Idx)
			ix := &td.Idx[i]
			org, end := ixkey.Min, ixkey.Max
			if op.K[0] != 0 {
				org = ix.key(rowFromK(op.K[0:4], len(td.Cols)))
			}
			if op.K[4] != 0 {
				end = ix.key(rowFromK(op.K[4:8], len(td.Cols)))
			}
			if org > end {
				org, end = end, org
			}
			if end != ixkey.Max && op.K[5]%2 == 0 {
				end += ixkey.Sep + ixkey.Max
			}
			e := hEvent{Kind: "scan", Table: td.Name, Idx: i, Org: hx(org), End: hx(end), Dir: op.Dir}
			err := catch(func() {
				var iter index.IndexIter
				var it iterTran
				getRec := fr.db.NewReadTran().GetRecord
				if ut != nil {
					iter, it = ut.IndexIter(td.Name, i), ut
				} else {
					iter, it = rt.IndexIter(td.Name, i), rt
				}
				iter.Range(index.Range{Org: org, End: end})
				for n := 0; op.N == 0 || n < op.N; n++ {
					if op.Dir == 0 {
						iter.Next(it)
					} else {
						iter.Prev(it)
					}
					if iter.Eof() {
						e.Eof = true
						break
					}
					_, off := iter.Cur()
					e.Got = append(e.Got, toH(rowOf(getRec(off), len(td.Cols))))
				}
			})
			if err != "" {
				if strings.Contains(err, "runtime error") || strings.Contains(err, "ASSERT") {
					fr.fatal.Store(fmt.Sprintf("scan %s[%d] crashed: %s", td.Name, i, err))
				}
				dead = true
				break
			}
			h.Events = append(h.Events, e)
		case "output":
			if ut == nil {
				continue
			}
			row := rowFromK(op.K, len(td.Cols))
			e := hEvent{Kind: "output", Table: td.Name, New: toH(row)}
			e.Err = catch(func() { ut.Output(thread, td.Name, recOf(row, op.N%2 == 0)) })
			h.Events = append(h.Events, e)
			if ut.VerifFailure() != "" {
				dead = true
			}
		case "update", "delete":
			if ut == nil {
				continue
			}
			le, off, err := lookup(td, 0, td.Idx[0].key(rowFromK(op.K, len(td.Cols))))
			if err != "" {
				dead = true
				break
			}
			h.Events = append(h.Events, *le)
			if off == 0 {
				continue
			}
			old := fromH(le.Got[0])
			e := hEvent{Kind: op.Op, Table: td.Name, Old: toH(old)}
			if op.Op == "update" {
				nw := old.clone()
				vals := rowFromK(op.K[4:8], len(td.Cols))
				mask := 1 + op.N%15
				for c := range nw {
					if mask&(1<<c) != 0 {
						nw[c] = vals[c]
					}
				}
				if selfRefKeyAndFk(td, old, nw) {
					if _, ok := kf.Known("C08", "selfref-update-key-and-fk"); ok {
						continue // known finding: class not exercised
					}
				}
				e.New = toH(nw)
				trim := op.Dir == 0
				e.Ident = string(recOf(nw, trim)) == string(ut.GetRecord(off))
				e.Err = catch(func() { ut.Update(thread, td.Name, off, recOf(nw, trim)) })
			} else {
				e.Err = catch(func() { ut.Delete(thread, td.Name, off) })
			}
			h.Events = append(h.Events, e)
			if ut.VerifFailure() != "" {
				dead = true
			}
		}
	}
	if ut == nil {
		rt.Complete()
		h.Finished = true
		return
	}
	if ft.End == 1 {
		ut.Abort()
		h.Result = "aborted"
		h.Finished = true
		return
	}
	h.TBefore = fr.tick.Add(1)
	res := ut.Complete()
	h.TAfter = fr.tick.Add(1)
	if res == "" {
		_, h.End = ut.VerifSeq()
		if h.End == math.MaxInt {
			h.End = 0
			h.Result = "Complete returned success but the transaction has no end sequence number"
		}
	} else {
		h.Result = res
	}
	h.Finished = true
}

// RunF executes a program in free-running mode and returns the recorded history.
func RunF(p FProgram) *History {
	db19.VerifAbortT1(false)
	db := db19.CreateDb(stor.HeapStor(8192))
	db19.StartConcur(db, time.Millisecond)
	hist := &History{Program: p}
	var names []string
	for _, s := range p.Schemas {
		if err := tryAdmin(db, s); err != "" {
			panic("harness: schema refused: " + s + ": " + err)
		}
		names = append(names, strings.Fields(s)[1])
	}
	w := loadWorld(db, names)
	fr := &fRunner{db: db, w: w}
	// setup transaction (thread -1)
	{
		ut := db.NewUpdateTran()
		h := &hTran{Thread: -1}
		h.Start, _ = ut.VerifSeq()
		for _, s := range p.Setup {
			td := w.Tables[s[0]%len(w.Tables)]
			row := rowFromK(s[1:], len(td.Cols))
			e := hEvent{Kind: "output", Table: td.Name, New: toH(row)}
			e.Err = catch(func() { ut.Output(thread, td.Name, recOf(row, true)) })
			h.Events = append(h.Events, e)
		}
		h.TBefore = fr.tick.Add(1)
		h.Result = ut.Complete()
		h.TAfter = fr.tick.Add(1)
		if h.Result == "" {
			_, h.End = ut.VerifSeq()
		}
		h.Finished = true
		fr.trans = append(fr.trans, h)
	}
	var wg sync.WaitGroup
	done := make(chan struct{})
	// sampler: while the workers run, fresh read transactions must always see agreeing indexes
	var samplerErr atomic.Value
	var nsamples atomic.Int64
	go func() {
		for {
			select {
			case <-done:
				return
			default:
			}
			if e := catch(func() {
				rt := db.NewReadTran()
				for _, td := range w.Tables {
					var offs0 map[uint64]bool
					for i := range td.Idx {
						rows := scanAll(rt, func() index.IndexIter { return rt.IndexIter(td.Name, i) }, rt.GetRecord)
						offs := map[uint64]bool{}
						for j, dr := range rows {
							if j > 0 && !(rows[j-1].key < dr.key) {
								panic(fmt.Sprintf("%s index %d not strictly increasing", td.Name, i))
							}
							if k := td.Idx[i].Sch.Ixspec.Key(dr.rec); k != dr.key {
								panic(fmt.Sprintf("%s index %d entry %q has record key %q", td.Name, i, dr.key, k))
							}
							offs[dr.off] = true
						}
						if i == 0 {
							offs0 = offs
							if ti := rt.GetInfo(td.Name); ti.Nrows != len(rows) {
								panic(fmt.Sprintf("%s Info.Nrows=%d but %d rows", td.Name, ti.Nrows, len(rows)))
							}
						} else if !sameSet(offs0, offs) {
							panic(fmt.Sprintf("%s index %d offsets %v differ from index 0 %v", td.Name, i, keysOf(offs), keysOf(offs0)))
						}
					}
				}
				nsamples.Add(1)
			}); e != "" {
				samplerErr.Store(e)
				return
			}
			time.Sleep(50 * time.Microsecond)
		}
	}()
	for g, trans := range p.Threads {
		wg.Add(1)
		go func() {
			defer wg.Done()
			for _, ft := range trans {
				fr.runTran(g, ft)
			}
		}()
	}
	if len(p.Admin) > 0 {
		wg.Add(1)
		go func() {
			defer wg.Done()
			for _, a := range p.Admin {
				time.Sleep(time.Duration(a[2]) * time.Microsecond)
				cmd := fmt.Sprintf("alter %s create index(%s)", names[a[0]%len(names)], strings.Join(fAdminCols[a[1]%len(fAdminCols)], ","))
				err := tryAdmin(db, cmd)
				fr.mu.Lock()
				hist.Notes = append(hist.Notes, fmt.Sprintf("admin %q -> %q", cmd, err))
				fr.mu.Unlock()
				if strings.Contains(err, "runtime error") || strings.Contains(err, "ASSERT") {
					fr.fatal.Store("index build crashed: " + cmd + ": " + err)
				}
			}
		}()
	}
	wg.Wait()
	close(done)
	hist.Trans = fr.trans
	if e, ok := samplerErr.Load().(string); ok {
		hist.Notes = append(hist.Notes, "SAMPLER: "+e)
	}
	if e, ok := fr.fatal.Load().(string); ok {
		hist.Notes = append(hist.Notes, "CRASH: "+e)
	}
	hist.Notes = append(hist.Notes, fmt.Sprintf("samples=%d", nsamples.Load()))
	// final contents
	db.Final()
	hist.Final = map[string][]hRow{}
	rt := db.NewReadTran()
	for _, td := range w.Tables {
		for _, dr := range scanAll(rt, func() index.IndexIter { return rt.IndexIter(td.Name, 0) }, rt.GetRecord) {
			hist.Final[td.Name] = append(hist.Final[td.Name], toH(rowOf(dr.rec, len(td.Cols))))
		}
	}
	if err := catch(func() {
		if e := db.Check(true); e != nil {
			panic(e.Error())
		}
	}); err != "" && !strings.Contains(err, "foreign key not found") {
		hist.Notes = append(hist.Notes, "FULLCHECK: "+err)
	}
	catch(func() { db.Close() })
	return hist
}

// ---------------------------------------------------------------- judging

type FStats struct {
	Writers, Overlapping, Conflicts, ReadTrans, Aborted, IndexBuilds int
}

func rdOf(e *hEvent) *readRec {
	dec := func(s string) string { b, _ := hex.DecodeString(s); return string(b) }
	rd := &readRec{Kind: e.Kind, Table: e.Table, Idx: e.Idx, Key: dec(e.Key), Org: dec(e.Org), End: dec(e.End), Dir: e.Dir, Eof: e.Eof}
	for _, g := range e.Got {
		rd.Got = append(rd.Got, fromH(g))
	}
	return rd
}

func applyEvent(w *World, m MDB, e *hEvent) *Refusal {
	td := w.table(e.Table)
	switch e.Kind {
	case "output":
		ref, _ := w.Output(m, e.Table, fromH(e.New))
		return ref
	case "update":
		if _, ok := m[e.Table][pkOf(td, fromH(e.Old))]; !ok {
			return &Refusal{"lost", "row to update does not exist"}
		}
		ref, _ := w.Update(m, e.Table, fromH(e.Old), fromH(e.New))
		return ref
	case "delete":
		if _, ok := m[e.Table][pkOf(td, fromH(e.Old))]; !ok {
			return &Refusal{"lost", "row to delete does not exist"}
		}
		ref, _ := w.Delete(m, e.Table, fromH(e.Old))
		return ref
	}
	return nil
}

func isWrite(e *hEvent) bool { return e.Kind == "output" || e.Kind == "update" || e.Kind == "delete" }

// JudgeHistory runs every oracle on a recorded history. It needs the World
// (schema), which is rebuilt from the program's schemas.
func JudgeHistory(h *History) (viol *Violation, st FStats) {
	defer func() {
		if e := recover(); e != nil {
			v, ok := e.(*Violation)
			if !ok {
				panic(e)
			}
			viol = v
		}
	}()
	fail := func(msg string, props ...string) { panic(&Violation{Props: props, Msg: msg}) }
	for _, n := range h.Notes {
		switch {
		case strings.HasPrefix(n, "SAMPLER: "):
			fail("a read transaction taken while transactions, merges and persists ran saw disagreeing indexes: "+n, "C06", "C16")
		case strings.HasPrefix(n, "CRASH: "):
			fail(n, "C03", "C06")
		case strings.HasPrefix(n, "FULLCHECK: "):
			fail("full database check after the run: "+n, "C06", "C16", "C03")
		}
	}
	// schema
	db := db19.CreateDb(stor.HeapStor(8192))
	db.CheckerSync()
	var names []string
	for _, s := range h.Program.Schemas {
		if err := tryAdmin(db, s); err != "" {
			panic("harness: schema refused: " + s)
		}
		names = append(names, strings.Fields(s)[1])
	}
	nBuilt := 0
	for _, n := range h.Notes {
		if strings.HasPrefix(n, "admin ") && strings.HasSuffix(n, `-> ""`) {
			var cmd string
			fmt.Sscanf(n, "admin %q", &cmd)
			if err := tryAdmin(db, cmd); err == "" {
				nBuilt++
			}
		}
	}
	w := loadWorld(db, names)
	st.IndexBuilds = nBuilt

	var writers []*hTran
	for _, t := range h.Trans {
		if !t.Finished {
			fail(fmt.Sprintf("transaction of thread %d never finished", t.Thread), "C03")
		}
		if t.End != 0 {
			wrote := false
			for i := range t.Events {
				if isWrite(&t.Events[i]) && t.Events[i].Err == "" && !t.Events[i].Ident {
					wrote = true
				}
			}
			if wrote {
				writers = append(writers, t)
			}
		}
	}
	sort.Slice(writers, func(i, j int) bool { return writers[i].End < writers[j].End })
	for i := 1; i < len(writers); i++ {
		if writers[i].End == writers[i-1].End {
			fail("two committed transactions share an end sequence number", "C01")
		}
	}
	st.Writers = len(writers)
	// serial fold in commit order (C01, C07, C08)
	models := []MDB{{}}
	for _, n := range names {
		models[0][n] = MTable{}
	}
	for wi, t := range writers {
		base := models[len(models)-1]
		m := base.clone()
		if wi > 0 && t.Start < writers[wi-1].End {
			st.Overlapping++
		}
		for i := range t.Events {
			e := &t.Events[i]
			if !isWrite(e) {
				rd := rdOf(e)
				model, _ := evalRead(w, m, rd)
				if !readMatches(rd, model) {
					fail(fmt.Sprintf("transaction (thread %d, start %d, end %d) committed, but at its commit point %v would have returned %v", t.Thread, t.Start, t.End, rd, model), "C01")
				}
				continue
			}
			if e.Err != "" || e.Ident {
				continue
			}
			if ref := applyEvent(w, m, e); ref != nil {
				props := []string{"C01"}
				if ref.Kind == "dup" {
					props = append(props, "C07")
				}
				if ref.Kind == "fk" {
					props = append(props, "C08")
				}
				fail(fmt.Sprintf("transaction (thread %d, start %d, end %d) committed, but run serially at its commit point %s %s %v->%v is impossible: %v", t.Thread, t.Start, t.End, e.Kind, e.Table, fromH(e.Old), fromH(e.New), ref), props...)
			}
		}
		c07, c08 := w.Invariants(m)
		if c07 != "" {
			fail(fmt.Sprintf("after the commit with end %d: %s", t.End, c07), "C07")
		}
		if c08 != "" {
			fail(fmt.Sprintf("after the commit with end %d: %s", t.End, c08), "C08")
		}
		models = append(models, m)
	}
	// every transaction against its snapshot (C02) and must-refuse predicates (C07 C08)
	for _, t := range h.Trans {
		if t.Result != "" && t.Result != "aborted" {
			if strings.Contains(t.Result, "conflict") {
				st.Conflicts++
			}
		}
		if t.Result == "aborted" {
			st.Aborted++
		}
		var candidates []int
		if t.Read {
			st.ReadTrans++
			// snapshot = some prefix of the commit order between the commits
			// completed before the transaction began and those started by then
			// ... that contains every writer whose Complete had returned before
			// the read transaction was requested and none whose Complete was
			// entered after it was handed out
			lo, hi := 0, len(writers)
			for wi, wt := range writers {
				if wt.TAfter < t.TBefore && wi+1 > lo {
					lo = wi + 1
				}
				if wt.TBefore > t.TAfter && wi < hi {
					hi = wi
				}
			}
			for k := lo; k <= hi; k++ {
				candidates = append(candidates, k)
			}
			if len(candidates) == 0 {
				fail(fmt.Sprintf("read transaction of thread %d: commit order contradicts wall order (must include %d writers, must exclude from %d)", t.Thread, lo, hi), "C01", "C02")
			}
		} else {
			k := 0
			for k < len(writers) && writers[k].End < t.Start {
				k++
			}
			candidates = []int{k}
		}
		var lastMsg string
		ok := false
		for _, k := range candidates {
			view := models[k].clone()
			msg := ""
			for i := range t.Events {
				e := &t.Events[i]
				if !isWrite(e) {
					rd := rdOf(e)
					model, _ := evalRead(w, view, rd)
					if !readMatches(rd, model) {
						msg = fmt.Sprintf("transaction (thread %d, start %d) read %v but its start snapshot plus own changes give %v", t.Thread, t.Start, rd, model)
						break
					}
					continue
				}
				if e.Ident {
					continue
				}
				tmp := view.clone()
				ref := applyEvent(w, tmp, e)
				if e.Err == "" {
					if ref != nil && ref.Kind != "lost" {
						prop := "C07"
						if ref.Kind == "fk" {
							prop = "C08"
						}
						fail(fmt.Sprintf("transaction (thread %d, start %d): %s %s %v->%v succeeded but must be refused (%v)", t.Thread, t.Start, e.Kind, e.Table, fromH(e.Old), fromH(e.New), ref), prop)
					}
					if ref == nil {
						view = tmp
					}
				}
			}
			if msg == "" {
				ok = true
				break
			}
			lastMsg = msg
		}
		if !ok {
			if t.Read {
				lastMsg = fmt.Sprintf("read transaction of thread %d: no prefix of the commit order explains all its reads; last mismatch: %s", t.Thread, lastMsg)
			}
			fail(lastMsg, "C02")
		}
	}
	// final state (C03)
	final := models[len(models)-1]
	for _, td := range w.Tables {
		var got []Row
		for _, hr := range h.Final[td.Name] {
			got = append(got, fromH(hr))
		}
		_, want := final.sortedByIndex(td, 0)
		if !rowsEq(got, want) {
			fail(fmt.Sprintf("after the run table %s holds %v, the transactions whose completion reported success give %v", td.Name, got, want), "C03", "C01", "C16")
		}
	}
	return nil, st
}

// SaveHistory writes the replay artefact.
func SaveHistory(h *History, name string) string {
	d := os.Getenv("VERIF_REPLAY_OUT")
	if d == "" {
		d = os.TempDir()
	}
	p := d + "/" + name
	b, _ := json.Marshal(h)
	os.WriteFile(p, b, 0o644)
	return p
}
