// Package txn is the transactional-history engine (C01 C02 C03 C06 C07 C08
// C16 C44): generated programs of interleaved transaction operations are run
// against a real db19 database (HeapStor + StartConcur: real checker queue,
// checker goroutine, merger goroutine) and compared with a plain logical model
// written from the documentation.
package txn

import (
	"fmt"
	"sort"
	"strings"

	"github.com/apmckinlay/gsuneido/core"
	"github.com/apmckinlay/gsuneido/db19/meta/schema"
)

// ---------------------------------------------------------------- values

// valDomain is the small column value domain (packed field bytes), chosen so
// that keys collide and key encodings meet zero bytes.
var valDomain = func() []string {
	pk := func(v core.Value) string { return core.Pack(v.(core.Packable)) }
	d := []string{"", pk(core.IntVal(0)), pk(core.IntVal(1)), pk(core.IntVal(2)),
		pk(core.SuStr("a")), pk(core.SuStr("a\x00")), pk(core.SuStr("a\x00b")), pk(core.IntVal(3)), pk(core.SuStr("\x00"))}
	for i := 4; i < 11; i++ {
		d = append(d, pk(core.IntVal(i)))
	}
	d = append(d, pk(core.SuStr("b")), pk(core.SuStr("a\x00\x00")), pk(core.SuStr("a\x00\x01")), pk(core.IntVal(-1)))
	return d
}()

func valName(raw string) string {
	if raw == "" {
		return `""`
	}
	defer func() { recover() }()
	return core.Unpack(raw).String()
}

// Row is one logical row: raw (packed) field values, one per column.
type Row []string

func (r Row) String() string {
	var sb strings.Builder
	sb.WriteString("[")
	for i, f := range r {
		if i > 0 {
			sb.WriteString(",")
		}
		sb.WriteString(valName(f))
	}
	sb.WriteString("]")
	return sb.String()
}

func (r Row) eq(o Row) bool {
	if len(r) != len(o) {
		return false
	}
	for i := range r {
		if r[i] != o[i] {
			return false
		}
	}
	return true
}

func (r Row) clone() Row { return append(Row(nil), r...) }

// rowOf decodes a stored record into ncols raw fields (missing = "").
func rowOf(rec core.Record, ncols int) Row {
	r := make(Row, ncols)
	for i := range r {
		r[i] = rec.GetRaw(i)
	}
	return r
}

// recOf builds a record; trim drops trailing empty fields (both forms are legal input).
func recOf(r Row, trim bool) core.Record {
	var rb core.RecordBuilder
	for _, f := range r {
		rb.AddRaw(f)
	}
	if trim {
		rb.Trim()
	}
	return rb.Build()
}

// ---------------------------------------------------------------- schema

// TableDef is the harness's view of one table; Idx is re-read from the real
// schema after every admin request.
type TableDef struct {
	Name   string
	Cols   []string
	Create string // admin text
	Idx    []IdxDef
}

type IdxDef struct {
	Mode     byte
	Cols     []int // positions of the index columns in the record
	ColNames []string
	Sch      *schema.Index // real schema index (for Ixspec.Key — trusted, checked by C12)
	Fk       *FkDef        // this index references a target key
	FkToHere []FkDef       // source indexes that reference this key
}

type FkDef struct {
	Table string // the other table
	Cols  []int  // column positions in the other table
	Mode  byte
}

func (td *TableDef) colPos(name string) int {
	for i, c := range td.Cols {
		if c == name {
			return i
		}
	}
	return -1
}

// key is the index key of a row (encoded by the real Ixspec; ordering of
// encoded keys is C12's subject and trusted here).
func (ix *IdxDef) key(r Row) string {
	return ix.Sch.Ixspec.Key(recOf(r, false))
}

func (ix *IdxDef) tuple(r Row) []string {
	t := make([]string, len(ix.Cols))
	for i, c := range ix.Cols {
		t[i] = r[c]
	}
	return t
}

func tupleEmpty(t []string) bool {
	for _, f := range t {
		if f != "" {
			return false
		}
	}
	return true
}

func tupleEq(a, b []string) bool {
	if len(a) != len(b) {
		return false
	}
	for i := range a {
		if a[i] != b[i] {
			return false
		}
	}
	return true
}

func pick(r Row, cols []int) []string {
	t := make([]string, len(cols))
	for i, c := range cols {
		t[i] = r[c]
	}
	return t
}

// ---------------------------------------------------------------- model db

// MTable maps the first key's tuple (joined) to the row.
type MTable map[string]Row

// MDB is a logical database: table name -> rows. Values are never mutated
// in place: writers copy the table first (copy-on-write snapshots).
type MDB map[string]MTable

func (m MDB) clone() MDB {
	n := make(MDB, len(m))
	for k, v := range m {
		n[k] = v
	}
	return n
}

// mut returns a private copy of the table inside m.
func (m MDB) mut(table string) MTable {
	old := m[table]
	n := make(MTable, len(old)+1)
	for k, v := range old {
		n[k] = v
	}
	m[table] = n
	return n
}

func pkOf(td *TableDef, r Row) string {
	return strings.Join(td.Idx[0].tuple(r), "\x1f")
}

func (m MDB) rows(table string) []Row {
	t := m[table]
	ks := make([]string, 0, len(t))
	for k := range t {
		ks = append(ks, k)
	}
	sort.Strings(ks)
	rs := make([]Row, len(ks))
	for i, k := range ks {
		rs[i] = t[k]
	}
	return rs
}

func (m MDB) String() string {
	var ts []string
	for t := range m {
		ts = append(ts, t)
	}
	sort.Strings(ts)
	var sb strings.Builder
	for _, t := range ts {
		fmt.Fprintf(&sb, "%s:", t)
		for _, r := range m.rows(t) {
			sb.WriteString(r.String())
		}
		sb.WriteString(" ")
	}
	return sb.String()
}

// sortedByIndex returns the rows of a table ordered by an index's key,
// with their keys.
func (m MDB) sortedByIndex(td *TableDef, i int) ([]string, []Row) {
	ix := &td.Idx[i]
	rs := m.rows(td.Name)
	type kr struct {
		k string
		r Row
	}
	krs := make([]kr, len(rs))
	for j, r := range rs {
		krs[j] = kr{ix.key(r), r}
	}
	sort.SliceStable(krs, func(a, b int) bool { return krs[a].k < krs[b].k })
	ks := make([]string, len(krs))
	out := make([]Row, len(krs))
	for j := range krs {
		ks[j], out[j] = krs[j].k, krs[j].r
	}
	return ks, out
}

// ---------------------------------------------------------------- logical ops

// World is the schema of one case.
type World struct {
	Tables []*TableDef
}

func (w *World) table(name string) *TableDef {
	for _, t := range w.Tables {
		if t.Name == name {
			return t
		}
	}
	return nil
}

// Refusal is the model's prediction that an operation must be refused.
type Refusal struct {
	Kind string // "dup" | "fk"
	Why  string
}

func (r *Refusal) String() string {
	if r == nil {
		return "ok"
	}
	return r.Kind + ": " + r.Why
}

// change is one row change produced by a logical op (used for triggers).
type change struct {
	Table    string
	Old, New Row // nil Old = insert, nil New = delete
}

// dupCheck: would row r (replacing old, may be nil) collide in view m?
func (w *World) dupCheck(m MDB, td *TableDef, r Row, old Row) *Refusal {
	for i := range td.Idx {
		ix := &td.Idx[i]
		if ix.Mode == 'i' {
			continue
		}
		t := ix.tuple(r)
		if old != nil && tupleEq(t, ix.tuple(old)) {
			continue // key unchanged
		}
		if ix.Mode == 'u' && tupleEmpty(t) {
			continue // empty unique values are not checked
		}
		for _, o := range m[td.Name] {
			if old != nil && o.eq(old) {
				continue
			}
			if tupleEq(t, ix.tuple(o)) {
				return &Refusal{"dup", fmt.Sprintf("%s %c(%s) = %v", td.Name, ix.Mode, strings.Join(ix.ColNames, ","), Row(t))}
			}
		}
	}
	return nil
}

// fkSourceCheck: every non-empty foreign key value of r must have a target row.
// Only the indexes whose fk value changed (vs old) are checked when old != nil.
func (w *World) fkSourceCheck(m MDB, td *TableDef, r Row, old Row) *Refusal {
	for i := range td.Idx {
		ix := &td.Idx[i]
		if ix.Fk == nil {
			continue
		}
		n := len(ix.Fk.Cols)
		t := ix.tuple(r)[:n]
		if tupleEmpty(t) {
			continue
		}
		if old != nil && tupleEq(ix.tuple(r), ix.tuple(old)) {
			continue
		}
		if !w.targetExists(m, ix.Fk, t, td, r) {
			return &Refusal{"fk", fmt.Sprintf("%s(%s)=%v has no row in %s", td.Name, strings.Join(ix.ColNames, ","), Row(t), ix.Fk.Table)}
		}
	}
	return nil
}

func (w *World) targetExists(m MDB, fk *FkDef, t []string, src *TableDef, self Row) bool {
	for _, o := range m[fk.Table] {
		if tupleEq(pick(o, fk.Cols), t) {
			return true
		}
	}
	return false
}

// sourcesOf returns the rows of the source table whose fk columns equal key.
func sourcesOf(m MDB, fk *FkDef, key []string) []Row {
	var rs []Row
	for _, o := range m.rows(fk.Table) {
		if tupleEq(pick(o, fk.Cols)[:len(key)], key) {
			rs = append(rs, o)
		}
	}
	return rs
}

// Output applies an insert to m (which must be private). Returns a refusal
// the documentation requires, or nil and the changes.
func (w *World) Output(m MDB, table string, r Row) (*Refusal, []change) {
	td := w.table(table)
	if ref := w.dupCheck(m, td, r, nil); ref != nil {
		return ref, nil
	}
	if ref := w.fkSourceCheck(m, td, r, nil); ref != nil {
		return ref, nil
	}
	m.mut(table)[pkOf(td, r)] = r
	return nil, []change{{table, nil, r}}
}

// Delete applies a delete with foreign key block / cascade semantics.
func (w *World) Delete(m MDB, table string, r Row) (*Refusal, []change) {
	var chs []change
	ref := w.delete(m, table, r, &chs, 0)
	if ref != nil {
		return ref, nil
	}
	return nil, chs
}

func (w *World) delete(m MDB, table string, r Row, chs *[]change, depth int) *Refusal {
	td := w.table(table)
	if depth > 50 {
		return &Refusal{"fk", "cascade depth"}
	}
	if _, ok := m[table][pkOf(td, r)]; !ok {
		return nil // already gone (self-referencing cascade)
	}
	// block first (documentation: removing a target row fails if there are
	// matching source rows, unless the key cascades deletes)
	for i := range td.Idx {
		ix := &td.Idx[i]
		key := ix.tuple(r)
		if tupleEmpty(key) {
			continue
		}
		for j := range ix.FkToHere {
			fk := &ix.FkToHere[j]
			if fk.Mode&schema.CascadeDeletes != 0 {
				continue
			}
			srcs := sourcesOf(m, fk, key)
			// a self reference by the row being deleted does not block
			n := 0
			for _, s := range srcs {
				if !(fk.Table == table && s.eq(r)) {
					n++
				}
			}
			if n > 0 {
				mode := "block"
				if fk.Mode == schema.CascadeUpdates {
					mode = "cascade update"
				}
				return &Refusal{"fk", fmt.Sprintf("delete of %s%v blocked by %d rows of %s (%s)", table, Row(key), n, fk.Table, mode)}
			}
		}
	}
	delete(m.mut(table), pkOf(td, r))
	*chs = append(*chs, change{table, r, nil})
	for i := range td.Idx {
		ix := &td.Idx[i]
		key := ix.tuple(r)
		if tupleEmpty(key) {
			continue
		}
		for j := range ix.FkToHere {
			fk := &ix.FkToHere[j]
			if fk.Mode&schema.CascadeDeletes == 0 {
				continue
			}
			for _, s := range sourcesOf(m, fk, key) {
				if ref := w.delete(m, fk.Table, s, chs, depth+1); ref != nil {
					return ref
				}
			}
		}
	}
	return nil
}

// Update applies old -> new with dup, fk-source, fk-target block / cascade
// update semantics.
func (w *World) Update(m MDB, table string, old, nw Row) (*Refusal, []change) {
	var chs []change
	ref := w.update(m, table, old, nw, true, &chs, 0)
	if ref != nil {
		return ref, nil
	}
	return nil, chs
}

func (w *World) update(m MDB, table string, old, nw Row, srcCheck bool, chs *[]change, depth int) *Refusal {
	td := w.table(table)
	if depth > 50 {
		return &Refusal{"fk", "cascade depth"}
	}
	if old.eq(nw) {
		return nil
	}
	if ref := w.dupCheck(m, td, nw, old); ref != nil {
		return ref
	}
	if srcCheck {
		if ref := w.fkSourceCheck(m, td, nw, old); ref != nil {
			return ref
		}
	}
	// as a target: changed keys with sources
	for i := range td.Idx {
		ix := &td.Idx[i]
		okey, nkey := ix.tuple(old), ix.tuple(nw)
		if tupleEq(okey, nkey) || tupleEmpty(okey) {
			continue
		}
		for j := range ix.FkToHere {
			fk := &ix.FkToHere[j]
			if fk.Mode&schema.CascadeUpdates != 0 {
				continue
			}
			n := 0
			for _, s := range sourcesOf(m, fk, okey) {
				if !(fk.Table == table && s.eq(old)) {
					n++
				}
			}
			if n > 0 {
				return &Refusal{"fk", fmt.Sprintf("update of %s%v blocked by %d rows of %s", table, Row(okey), n, fk.Table)}
			}
		}
	}
	mt := m.mut(table)
	delete(mt, pkOf(td, old))
	mt[pkOf(td, nw)] = nw
	*chs = append(*chs, change{table, old, nw})
	for i := range td.Idx {
		ix := &td.Idx[i]
		okey, nkey := ix.tuple(old), ix.tuple(nw)
		if tupleEq(okey, nkey) || tupleEmpty(okey) {
			continue
		}
		for j := range ix.FkToHere {
			fk := &ix.FkToHere[j]
			if fk.Mode&schema.CascadeUpdates == 0 {
				continue
			}
			for _, s := range sourcesOf(m, fk, okey) {
				if fk.Table == table && s.eq(old) {
					s = nw // the row itself was already replaced
				}
				if _, ok := m[fk.Table][pkOf(w.table(fk.Table), s)]; !ok {
					continue
				}
				ns := s.clone()
				for k, c := range fk.Cols[:len(nkey)] {
					ns[c] = nkey[k]
				}
				if ref := w.update(m, fk.Table, s, ns, false, chs, depth+1); ref != nil {
					return ref
				}
			}
		}
	}
	return nil
}

// Invariants checks key / unique / foreign key rules of a committed state.
func (w *World) Invariants(m MDB) (c07, c08 string) {
	for _, td := range w.Tables {
		rs := m.rows(td.Name)
		for i := range td.Idx {
			ix := &td.Idx[i]
			if ix.Mode != 'i' {
				seen := map[string]Row{}
				for _, r := range rs {
					t := ix.tuple(r)
					if ix.Mode == 'u' && tupleEmpty(t) {
						continue
					}
					k := strings.Join(t, "\x1f")
					if o, ok := seen[k]; ok {
						c07 = fmt.Sprintf("table %s: rows %v and %v share %c(%s)", td.Name, o, r, ix.Mode, strings.Join(ix.ColNames, ","))
					}
					seen[k] = r
				}
			}
			if ix.Fk != nil {
				for _, r := range rs {
					t := ix.tuple(r)[:len(ix.Fk.Cols)]
					if tupleEmpty(t) {
						continue
					}
					if !w.targetExists(m, ix.Fk, t, td, r) {
						c08 = fmt.Sprintf("table %s row %v: foreign key (%s)=%v has no row in %s", td.Name, r, strings.Join(ix.ColNames, ","), Row(t), ix.Fk.Table)
					}
				}
			}
		}
	}
	return
}
