package txn

import (
	"encoding/json"
	"fmt"
	"os"
	"strings"
	"testing"

	"pgregory.net/rapid"
	"verifharness/internal/ev"
	"verifharness/internal/rt"
)

type propSpec struct {
	id       string
	rule     string
	opts     GenOpts
	states   bool
	pauses   bool
	modeF    [2]int // quick / thorough histories in free-running mode (0 = none)
	extra    func(t *testing.T, rec *ev.Rec)
	nt       func(l map[string]int) bool
	quick    int
	thorough int
}

func owns(v *Violation, id string) bool {
	for _, p := range v.Props {
		if p == id {
			return true
		}
	}
	return false
}

// runProp is the common body of the deterministic-mode (Mode D) checks.
func runProp(t *testing.T, ps propSpec) {
	rec := ev.New(ps.id, ps.rule)
	rec.Assumptions = []string{
		"Mode D: one goroutine executes a generated interleaving; after every operation a low-priority round trip through the checker queue is a barrier, and the abort choice is fixed (abort the acting transaction), so the history is a function of the program",
		"index key encoding (ixkey) is trusted for ordering model rows (subject of C12)",
		"a refusal the model does not predict is followed, not judged (counted as unexpected_refusal)",
	}
	defer rec.Write()
	cfg := Config{Own: map[string]bool{ps.id: true}, Rec: rec, CheckStates: ps.states, PauseMerger: ps.pauses}

	if p := os.Getenv("VERIF_REPLAY"); p != "" && strings.Contains(p, "history-") {
		var h History
		b, err := os.ReadFile(p)
		if err != nil || json.Unmarshal(b, &h) != nil {
			t.Fatalf("cannot read history file %s", p)
		}
		if v, _ := JudgeHistory(&h); v != nil && owns(v, ps.id) {
			rt.Fail(t, rec, "replay", p, v.Msg)
		}
		rec.Case(true, "h1")
		rec.Case(true, "h2")
		return
	}
	if p := os.Getenv("VERIF_REPLAY"); p != "" && strings.HasSuffix(p, ".json") {
		var prog Program
		b, err := os.ReadFile(p)
		if err != nil || json.Unmarshal(b, &prog) != nil {
			t.Fatalf("cannot read replay file %s", p)
		}
		v, st := RunProgram(prog, cfg)
		if v != nil && owns(v, ps.id) {
			rt.Fail(t, rec, "replay", p, v.Msg+"\n"+strings.Join(st.Log, "\n"))
		}
		if os.Getenv("VERIF_SHOWLOG") != "" {
			t.Log("\n" + strings.Join(st.Log, "\n"))
			if v != nil {
				t.Logf("violation (props %v): %s", v.Props, v.Msg)
			}
		}
		rec.Case(true, prog.Canon())
		rec.Case(true, prog.Canon()+"#")
		return
	}

	if ps.id == "C44" {
		// first in the process: the trigger names of this sub-check must
		// not have been referenced before
		runLateDef(t, rec)
	}
	rt.Check(t, rec, "modeD", ps.quick, ps.thorough, func(t *rapid.T) {
		prog := Draw(t, ps.opts)
		v, st := RunProgram(prog, cfg)
		if v != nil {
			if owns(v, ps.id) {
				b, _ := json.Marshal(prog)
				t.Fatalf("%s\nprogram: %s\nlog:\n%s", v.Msg, b, strings.Join(st.Log, "\n"))
			}
			rec.Label("stopped_by_other_property:" + strings.Join(v.Props, "+"))
			rec.Sample("other_property", v.Msg)
			rec.Case(false, "")
			return
		}
		nt := ps.nt(st.Labels)
		rec.Case(nt, prog.Canon())
		for k, n := range st.Labels {
			if n > 0 {
				rec.Label("cases_with_" + k)
				if strings.HasPrefix(k, "unexpected_refusal:") {
					rec.LabelN(k, n)
				}
			}
		}
		if nt && rec.WantSample("nontrivial_history") {
			rec.Sample("nontrivial_history", map[string]any{"schemas": prog.Schemas, "log": st.Log})
		}
	})

	if ps.extra != nil {
		ps.extra(t, rec)
	}
	if ps.modeF[0] > 0 {
		// Mode F: free-running goroutines; the oracle judges the recorded
		// history. A failure is not handed to rapid (a schedule cannot be
		// shrunk or replayed): the history is saved and judged again on replay.
		var failures []string
		rt.Check(t, rec, "modeF", ps.modeF[0], ps.modeF[1], func(t *rapid.T) {
			if len(failures) > 0 {
				return
			}
			fp := genFProgram(t, ps.opts)
			h := RunF(fp)
			v, st := JudgeHistory(h)
			if v != nil && owns(v, ps.id) {
				path := SaveHistory(h, fmt.Sprintf("history-%d.json", len(failures)))
				failures = append(failures, v.Msg+" (history: "+path+")")
				return
			}
			rec.Case(st.Overlapping > 0 || st.Conflicts > 0, "F"+mustJSON(fp))
			rec.Label("modeF_histories")
			rec.LabelN("modeF_committed_writers", st.Writers)
			rec.LabelN("modeF_writers_overlapping_previous_commit", st.Overlapping)
			rec.LabelN("modeF_conflict_aborts", st.Conflicts)
			rec.LabelN("modeF_read_transactions", st.ReadTrans)
			rec.LabelN("modeF_concurrent_index_builds", st.IndexBuilds)
			if v != nil {
				rec.Label("modeF_stopped_by_other_property:" + strings.Join(v.Props, "+"))
				rec.Sample("modeF_other_property", v.Msg)
			}
		})
		for _, f := range failures {
			rt.Fail(t, rec, "modeF", "", f)
		}
	}
}

func mustJSON(v any) string {
	b, _ := json.Marshal(v)
	return string(b)
}

var baseWorld = WorldOpts{Fkeys: true, SelfRef: false, EmptyKey: true, MaxTabs: 2}

func TestC01(t *testing.T) {
	runProp(t, propSpec{id: "C01", modeF: [2]int{150, 1500},
		rule: "rapid-generated programs interleaving 2-4 transactions (lookups, forward/backward/partial range scans, scan-and-modify, inserts, updates, deletes, commits, aborts, persists, merge syncs) on 1-2 generated tables with tiny value domains; oracle = serial replay of every committed writer's reads and writes at its commit point on an own logical model. Non-trivial: a writer committed after another commit happened since its start, or a conflict abort occurred; distinct by program.",
		opts: GenOpts{World: baseWorld, Slots: 4, MaxInstrs: 40, ValRange: 12, SkewPct: 40,
			Weights: map[string]int{"begin": 10, "lookup": 12, "scan": 12, "complete": 10}},
		nt: func(l map[string]int) bool {
			return l["commit_overlapping_other_commit"] > 0 || l["conflict_abort"] > 0
		},
		quick: 1500, thorough: 20000})
}

func TestC02(t *testing.T) {
	runProp(t, propSpec{id: "C02", modeF: [2]int{100, 1000},
		rule: "same engine, weighted towards read transactions held open across foreign commits, persists, merges and index builds (admin requests) and re-reading all earlier reads; at every re-read the table definitions the transaction shows (GetSchema) must be those it showed when it began; oracle = every read equals start snapshot + own changes (own model) and repeated reads are identical. Non-trivial: a re-read happened in a history with a successful commit and a persist/merge; distinct by program.",
		opts: GenOpts{World: baseWorld, Slots: 4, MaxInstrs: 40, ValRange: 12,
			Weights: map[string]int{"beginread": 8, "reread": 10, "persist": 4, "mergesync": 4, "lookup": 10, "scan": 10, "admin": 3}},
		nt:    func(l map[string]int) bool { return l["reread"] > 0 && l["commit_ok"] > 0 && l["persist"] > 0 },
		quick: 1500, thorough: 20000})
}

func TestC03(t *testing.T) {
	// (the write-limit class — 10 000 writes in one transaction — has its own
	// directed generator, writeLimit: small histories cannot reach it)
	runProp(t, propSpec{id: "C03", extra: writeLimit, modeF: [2]int{100, 1000},
		rule: "same engine with explicit aborts, conflict aborts, max-age aborts (MaxAge lowered, injected clock ticks), exclusive index builds preempting writers; oracle = after every completion/abort a fresh read transaction shows exactly the model folded over the successful completions, failed transactions stay failed, Info.Nrows/Size equal actual rows/bytes. Non-trivial: history with a failed/aborted and a successful completion; distinct by program.",
		opts: GenOpts{World: baseWorld, Slots: 4, MaxInstrs: 40, ValRange: 12, LowMaxAge: true, ChainPct: 8,
			Weights: map[string]int{"abort": 5, "tick": 4, "admin": 2, "complete": 10}},
		nt: func(l map[string]int) bool {
			return l["commit_ok"] > 0 && (l["commit_failed"]+l["explicit_abort"]+l["conflict_abort"]+l["maxage_abort"]+l["exclusive_abort"]) > 0
		},
		quick: 1500, thorough: 20000})
}

func TestC06(t *testing.T) {
	runProp(t, propSpec{id: "C06", modeF: [2]int{100, 1000},
		rule: "same engine weighted towards update-then-delete / delete-then-reinsert in one transaction, scan-and-modify, cascades and index builds on populated tables; oracle = in every state delivered by the state-update hook, in every update transaction's own view after each write, and in every fresh read transaction: each index is strictly ordered, each entry's key is the key of its record, and all indexes yield the same offsets (= Info.Nrows). Non-trivial: >= 2 successful commits and a cascade, refused or scan-modify operation; distinct by program.",
		opts: GenOpts{World: WorldOpts{Fkeys: true, SelfRef: true, EmptyKey: true, MaxTabs: 2}, Slots: 3, MaxInstrs: 45, ValRange: 12, ChainPct: 8,
			Weights: map[string]int{"update": 14, "delete": 10, "scanmod": 6, "admin": 2, "persist": 3, "mergesync": 3}},
		states: true,
		nt:     func(l map[string]int) bool { return l["commit_ok"] >= 2 && l["states_checked"] >= 3 },
		quick:  1200, thorough: 15000})
}

func TestC07(t *testing.T) {
	runProp(t, propSpec{id: "C07", modeF: [2]int{100, 1000},
		rule: "same engine on tables with single, composite, double, empty keys and unique indexes, 3-value domain, 2-4 concurrent writers; oracle = no committed model state has two rows agreeing on a key or on a non-empty unique value, a write colliding with a row visible to the writer is refused, two concurrent colliders never both commit. Non-trivial: a duplicate was refused or a conflict abort happened; distinct by program.",
		opts: GenOpts{World: WorldOpts{Fkeys: false, EmptyKey: true, MaxTabs: 2}, Slots: 4, MaxInstrs: 40, ValRange: 3,
			Weights: map[string]int{"output": 20, "update": 12, "begin": 10, "complete": 10}},
		nt:    func(l map[string]int) bool { return l["refused_dup"] > 0 || l["conflict_abort"] > 0 },
		quick: 1500, thorough: 20000})
}

func TestC08(t *testing.T) {
	runProp(t, propSpec{id: "C08", modeF: [2]int{100, 1000},
		rule: "same engine on target/source table pairs with block, cascade and cascade-update foreign keys, composite and self-referencing keys, values with zero bytes; oracle = every committed model state has a target row for every non-empty foreign key value; source writes without target and target deletes/updates with non-cascading sources must be refused; cascades change exactly the matching sources (own view and committed state compared with the model). Non-trivial: a change of a target row that has source rows cascaded or was refused; distinct by program.",
		opts: GenOpts{World: WorldOpts{Fkeys: true, SelfRef: true, EmptyKey: false, MaxTabs: 3}, Slots: 3, MaxInstrs: 40, ValRange: 7, SkewPct: 40, ChainPct: 15, Domain: []int{0, 6, 1, 5, 8, 14, 2},
			Weights: map[string]int{"output": 18, "update": 12, "delete": 12}},
		nt: func(l map[string]int) bool {
			return l["cascade_ops"] > 0 || l["refused_target_change_with_sources"] > 0
		},
		quick: 1500, thorough: 20000})
}

func TestC16(t *testing.T) {
	runProp(t, propSpec{id: "C16", modeF: [2]int{150, 1500},
		rule: "same engine on a database with a 1 ms persist ticker; the real merger goroutine is held (hook) between computing a merge / a ticker-driven persist on a snapshot and applying it, while the program commits further transactions (<= 3, the merge channel holds 4), then released; oracle = the logical content of every index of EVERY published state (state-update hook) equals the serial model of the committed transactions (before or after the current commit, never going back), layers == deltas, btree counts + deltas == Nrows/Size == actual. Non-trivial: a commit landed between a compute and its apply; distinct by program.",
		opts: GenOpts{World: WorldOpts{Fkeys: true, SelfRef: false, EmptyKey: true, MaxTabs: 2}, Slots: 3, MaxInstrs: 50, ValRange: 12, Pauses: true, GlobalPct: 30,
			Weights: map[string]int{"pausemerge": 6, "pausepersist": 6, "waitpaused": 8, "release": 5, "persist": 1, "mergesync": 1, "output": 16, "update": 8, "delete": 8, "complete": 14, "begin": 8, "scan": 3, "lookup": 4, "reread": 1, "abort": 1, "beginread": 1}},
		pauses: true,
		nt:     func(l map[string]int) bool { return l["commit_landed_between_compute_and_apply"] > 0 },
		quick:  500, thorough: 8000})
}

func TestC44(t *testing.T) {
	runProp(t, propSpec{id: "C44",
		rule: "same engine with Trigger_<table> globals (Go callables recording (transaction, old, new)) on a generated subset of tables, optionally throwing for rows with a generated key value; changes through the transaction API, through query statements (DoAction delete/update) and through cascades; nested DisableTrigger/EnableTrigger; oracle = per operation the multiset of trigger calls equals the row changes predicted by the model (none for identical updates, none while disabled, transaction argument = the changing transaction), a throwing trigger's exception reaches the caller and after rollback nothing is visible. Non-trivial: a cascaded change on a table with a trigger, or a trigger threw, or calls were suppressed while disabled; distinct by program.",
		opts: GenOpts{World: WorldOpts{Fkeys: true, SelfRef: true, EmptyKey: false, MaxTabs: 3}, Slots: 3, MaxInstrs: 40, ValRange: 7, Triggers: true,
			Weights: map[string]int{"output": 16, "update": 10, "delete": 10, "action": 8, "trigoff": 3, "trigon": 3, "scan": 3, "lookup": 3}},
		nt: func(l map[string]int) bool {
			return l["trigger_cascaded_calls"] > 0 || l["trigger_threw"] > 0 || l["trigger_suppressed_while_disabled"] > 0
		},
		quick: 1200, thorough: 15000})
}

var _ = fmt.Sprint

// TestMinimize is a developer aid: VERIF_REPLAY=<program.json> VERIF_PROP=C06
// greedily removes instructions while the violation persists and prints the result.
func TestMinimize(t *testing.T) {
	p := os.Getenv("VERIF_REPLAY")
	id := os.Getenv("VERIF_PROP")
	if p == "" || id == "" {
		t.Skip("developer aid")
	}
	var prog Program
	b, _ := os.ReadFile(p)
	if json.Unmarshal(b, &prog) != nil {
		t.Fatal("bad program")
	}
	cfg := Config{Own: map[string]bool{id: true}, Rec: ev.New(id, ""), CheckStates: id == "C06" || id == "C16"}
	fails := func(q Program) bool {
		v, _ := RunProgram(q, cfg)
		return v != nil && owns(v, id)
	}
	if !fails(prog) {
		t.Fatal("program does not fail")
	}
	for changed := true; changed; {
		changed = false
		for i := 0; i < len(prog.Instrs); i++ {
			q := prog
			q.Instrs = append(append([]Instr(nil), prog.Instrs[:i]...), prog.Instrs[i+1:]...)
			if fails(q) {
				prog = q
				changed = true
				i--
			}
		}
	}
	v, st := RunProgram(prog, cfg)
	out, _ := json.Marshal(prog)
	fmt.Printf("MINIMIZED: %s\n%s\n%s\n", out, v.Msg, strings.Join(st.Log, "\n"))
}
