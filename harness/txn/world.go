package txn

import (
	"fmt"
	"strings"
	"time"

	"github.com/apmckinlay/gsuneido/core"
	"github.com/apmckinlay/gsuneido/db19"
	"github.com/apmckinlay/gsuneido/db19/stor"
	_ "github.com/apmckinlay/gsuneido/dbms" // sets db19.MakeSuTran
	"github.com/apmckinlay/gsuneido/dbms/query"
	"pgregory.net/rapid"
	"verifharness/internal/kf"
)

// WorldOpts selects which schema features the generator may use.
type WorldOpts struct {
	Fkeys    bool // foreign keys between tables
	SelfRef  bool // self-referencing foreign key
	EmptyKey bool // key()
	MaxTabs  int
}

var cols = []string{"a", "b", "c", "d"}

// genSchemas draws the admin texts that create the tables of one case.
func genSchemas(t *rapid.T, o WorldOpts) []string {
	nt := rapid.IntRange(1, max(1, o.MaxTabs)).Draw(t, "ntables")
	var out []string
	type tinfo struct{ keys [][]string }
	var infos []tinfo
	for i := 0; i < nt; i++ {
		name := fmt.Sprintf("t%d", i)
		var parts []string
		var keys [][]string
		kc := rapid.IntRange(0, 9).Draw(t, "keycls")
		switch {
		case kc <= 4:
			keys = [][]string{{"a"}}
		case kc <= 6:
			keys = [][]string{{"a", "b"}}
		case kc <= 8:
			keys = [][]string{{"a"}, {"b"}}
		default:
			if o.EmptyKey {
				keys = [][]string{{}}
			} else {
				keys = [][]string{{"a"}}
			}
		}
		// foreign key choices for this table: (cols, target, targetcols)
		type fkc struct {
			cols  []string
			tgt   string
			tcols []string
		}
		var fkcs []fkc
		if o.Fkeys {
			for j := 0; j < i; j++ {
				for _, k := range infos[j].keys {
					switch len(k) {
					case 1:
						fkcs = append(fkcs, fkc{[]string{"b"}, fmt.Sprintf("t%d", j), k}, fkc{[]string{"c"}, fmt.Sprintf("t%d", j), k})
					case 2:
						fkcs = append(fkcs, fkc{[]string{"b", "c"}, fmt.Sprintf("t%d", j), k}, fkc{[]string{"c", "d"}, fmt.Sprintf("t%d", j), k})
					}
				}
			}
		}
		// (a self reference combined with another foreign key in one create is
		// refused by the schema validation with "foreign key IIndex mismatch":
		// C21 territory, not generated here)
		if o.SelfRef && (len(fkcs) == 0 || rapid.IntRange(0, 2).Draw(t, "selfref") == 0) {
			fkcs = nil
			for _, k := range keys {
				if len(k) == 1 && k[0] == "a" {
					fkcs = append(fkcs, fkc{[]string{"c"}, name, k})
				}
			}
		}
		modes := []string{"", " cascade", " cascade update"}
		fkOn := map[string]string{}
		if len(fkcs) > 0 && rapid.IntRange(0, 9).Draw(t, "hasfk") < 8 {
			nf := rapid.IntRange(1, 2).Draw(t, "nfk")
			for f := 0; f < nf; f++ {
				c := fkcs[rapid.IntRange(0, len(fkcs)-1).Draw(t, "fk")]
				mode := modes[rapid.IntRange(0, 2).Draw(t, "fkmode")]
				// known finding C08/overlapping-fk-cascade-update: two foreign keys of
				// one table that share a column are not generated while it is listed
				if _, known := kf.Known("C08", "overlapping-fk-cascade-update"); known {
					overlap := false
					for other := range fkOn {
						for _, oc := range strings.Split(other, ",") {
							for _, cc := range c.cols {
								if oc == cc && other != strings.Join(c.cols, ",") {
									overlap = true
								}
							}
						}
					}
					if overlap {
						continue
					}
				}
				fkOn[strings.Join(c.cols, ",")] = fmt.Sprintf(" in %s(%s)%s", c.tgt, strings.Join(c.tcols, ","), mode)
			}
		}
		used := map[string]bool{}
		for _, k := range keys {
			ks := strings.Join(k, ",")
			used[ks] = true
			parts = append(parts, "key("+ks+")"+fkOn[ks])
			delete(fkOn, ks)
		}
		// secondary indexes
		secs := [][]string{{"b"}, {"c"}, {"b", "c"}, {"c", "d"}, {"d"}}
		for _, s := range secs {
			ss := strings.Join(s, ",")
			if used[ss] {
				continue
			}
			fk, isFk := fkOn[ss]
			if !isFk && rapid.IntRange(0, 9).Draw(t, "sec_"+ss) >= 4 {
				continue
			}
			kind := "index"
			if rapid.IntRange(0, 9).Draw(t, "uniq_"+ss) < 3 {
				kind = "index unique"
			}
			parts = append(parts, kind+"("+ss+")"+fk)
			used[ss] = true
		}
		infos = append(infos, tinfo{keys})
		out = append(out, fmt.Sprintf("create %s (a,b,c,d) %s", name, strings.Join(parts, " ")))
	}
	return out
}

// newDb creates a HeapStor database with the full concurrent pipeline.
func newDb() *db19.Database {
	db := db19.CreateDb(stor.HeapStor(8192))
	db19.StartConcur(db, 24*time.Hour) // persists are explicit operations
	return db
}

func tryAdmin(db *db19.Database, cmd string) (err string) {
	defer func() {
		if e := recover(); e != nil {
			err = fmt.Sprint(e)
			if err == "" {
				err = "panic"
			}
		}
	}()
	query.DoAdmin(db, cmd, nil)
	return ""
}

// loadWorld reads the real schema into the harness's table definitions.
func loadWorld(db *db19.Database, names []string) *World {
	rt := db.NewReadTran()
	w := &World{}
	for _, name := range names {
		sc := rt.GetSchema(name)
		td := &TableDef{Name: name, Cols: append([]string(nil), sc.Columns...)}
		w.Tables = append(w.Tables, td)
	}
	for ti, name := range names {
		sc := rt.GetSchema(name)
		td := w.Tables[ti]
		for i := range sc.Indexes {
			six := &sc.Indexes[i]
			ix := IdxDef{Mode: six.Mode, ColNames: six.Columns, Sch: six}
			for _, c := range six.Columns {
				ix.Cols = append(ix.Cols, td.colPos(c))
			}
			if six.Fk.Table != "" {
				tgt := w.table(six.Fk.Table)
				fk := &FkDef{Table: six.Fk.Table, Mode: six.Fk.Mode}
				for _, c := range six.Fk.Columns {
					fk.Cols = append(fk.Cols, tgt.colPos(c))
				}
				ix.Fk = fk
			}
			for _, f := range six.FkToHere {
				src := w.table(f.Table)
				fk := FkDef{Table: f.Table, Mode: f.Mode}
				for _, c := range f.Columns {
					fk.Cols = append(fk.Cols, src.colPos(c))
				}
				ix.FkToHere = append(ix.FkToHere, fk)
			}
			td.Idx = append(td.Idx, ix)
		}
	}
	return w
}

var thread = &core.Thread{}
