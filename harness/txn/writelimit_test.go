package txn

import (
	"fmt"
	"strings"
	"testing"

	"github.com/apmckinlay/gsuneido/core"
	"github.com/apmckinlay/gsuneido/db19/index"
	"pgregory.net/rapid"
	"verifharness/internal/ev"
	"verifharness/internal/gen"
	"verifharness/internal/rt"
)

// writeLimit: a transaction that runs into the write limit (10 000 outputs /
// updates / deletes) is aborted as a whole: its completion reports failure and
// none of its writes is visible; one that stays below commits all of them.
// Info.Nrows / Size must equal the visible rows either way.
func writeLimit(t *testing.T, rec *ev.Rec) {
	rt.Check(t, rec, "writelimit", 12, 60, func(t *rapid.T) {
		// around the documented limit of 10 000 writes, or well below it (the
		// checker's write sets can fill up earlier, which is also a write-limit abort)
		n := 9985 + gen.Uniform(t, "nwrites", 30)
		if gen.Chance(t, "below", 50) {
			n = 1500 + gen.Uniform(t, "nwrites_below", 4500)
		}
		pre := gen.Uniform(t, "pre", 4)
		mix := gen.Uniform(t, "mix", 3) // 0 outputs only, 1 + updates, 2 + deletes
		db := newDb()
		defer func() { catch(func() { db.Close() }) }()
		if e := tryAdmin(db, "create t0 (a,b) key(a) index(b)"); e != "" {
			t.Fatalf("create: %s", e)
		}
		mk := func(a, b int) core.Record {
			var rb core.RecordBuilder
			rb.Add(core.IntVal(a).(core.Packable))
			rb.Add(core.IntVal(b).(core.Packable))
			return rb.Build()
		}
		ut := db.NewUpdateTran()
		for i := 0; i < pre; i++ {
			ut.Output(thread, "t0", mk(-1-i, 0))
		}
		if r := ut.Complete(); r != "" {
			t.Fatalf("setup commit failed: %s", r)
		}
		ut = db.NewUpdateTran()
		writes, failedAt, errText := 0, -1, ""
		for i := 0; writes < n; i++ {
			err := catch(func() {
				ut.Output(thread, "t0", mk(i, i%7))
				writes++
				if mix >= 1 && i%5 == 0 && writes < n {
					rec := ut.Lookup("t0", 0, core.Pack(core.IntVal(i).(core.Packable)))
					ut.Update(thread, "t0", rec.Off, mk(i, 100+i%3))
					writes++
				}
				if mix == 2 && i%11 == 0 && writes < n {
					rec := ut.Lookup("t0", 0, core.Pack(core.IntVal(i).(core.Packable)))
					ut.Delete(thread, "t0", rec.Off)
					writes++
				}
			})
			if err != "" {
				failedAt, errText = writes, err
				break
			}
		}
		res := ut.Complete()
		db.Final()
		if failedAt >= 0 && !strings.Contains(errText, "too many") && !strings.Contains(errText, "aborted") {
			t.Fatalf("write %d failed with %q", failedAt, errText)
		}
		if failedAt >= 0 && res == "" {
			t.Fatalf("a write failed (%s) but Complete reported success", errText)
		}
		// visible state: all or nothing
		rtx := db.NewReadTran()
		var rows []dbRow
		for i := 0; i < 2; i++ {
			rs := scanAll(rtx, func() index.IndexIter { return rtx.IndexIter("t0", i) }, rtx.GetRecord)
			if i == 0 {
				rows = rs
			} else if len(rs) != len(rows) {
				t.Fatalf("index 1 has %d entries, index 0 has %d", len(rs), len(rows))
			}
		}
		own := 0
		var size int64
		for _, r := range rows {
			size += int64(r.rec.Len())
			if v := core.Unpack(r.rec.GetRaw(0)); v.Compare(core.Zero) >= 0 {
				own++
			}
		}
		ti := rtx.GetInfo("t0")
		if ti.Nrows != len(rows) || ti.Size != size {
			t.Fatalf("Info Nrows=%d Size=%d, actual %d rows %d bytes (result %q)", ti.Nrows, ti.Size, len(rows), size, res)
		}
		if res != "" && own != 0 {
			t.Fatalf("completion reported %q but %d rows of the transaction are visible", res, own)
		}
		if res == "" && own == 0 && n > 0 {
			t.Fatalf("completion reported success but none of the rows is visible")
		}
		if len(rows)-own != pre {
			t.Fatalf("earlier committed rows changed: %d, want %d", len(rows)-own, pre)
		}
		rec.Case(true, fmt.Sprintf("writelimit n=%d pre=%d mix=%d", n, pre, mix))
		rec.LabelIf(res != "", "writelimit_transaction_aborted")
		if res != "" {
			rec.Label(fmt.Sprintf("writelimit_abort_reason:%s", firstWords(res, 4)))
			rec.Sample("writelimit_abort", fmt.Sprintf("n=%d writes done=%d failedAt=%d err=%q result=%q", n, writes, failedAt, errText, res))
		}
		rec.LabelIf(res == "", "writelimit_transaction_committed")
	})
}
