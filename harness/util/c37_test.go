package utilx

import (
	"fmt"
	"regexp"
	"runtime"
	"strings"
	"testing"
	"time"

	"github.com/apmckinlay/gsuneido/util/regex"
	"pgregory.net/rapid"
	"verifharness/internal/ev"
	"verifharness/internal/kf"
	"verifharness/internal/rt"
)

// watchdog for "never hangs": generous because the machine is shared; a case
// normally takes microseconds.
const rxWatchdog = 20 * time.Second

type suResult struct {
	ok    bool
	cap   caps
	panic any
	hung  bool
}

// guarded runs f (calls into util/regex) under the watchdog, catching panics.
func guarded(f func() (bool, caps)) suResult {
	ch := make(chan suResult, 1)
	go func() {
		var r suResult
		defer func() {
			if e := recover(); e != nil {
				r.panic = e
			}
			ch <- r
		}()
		r.ok, r.cap = f()
	}()
	tm := time.NewTimer(rxWatchdog)
	defer tm.Stop()
	select {
	case r := <-ch:
		return r
	case <-tm.C:
		return suResult{hung: true}
	}
}

func suCompile(t *rapid.T, src string) regex.Pattern {
	var pat regex.Pattern
	r := guarded(func() (bool, caps) { pat = regex.Compile(src); return true, noCaps })
	if r.hung {
		t.Fatalf("Compile(%q) did not return within %v", src, rxWatchdog)
	}
	if r.panic != nil {
		t.Fatalf("Compile(%q) of a generated (valid) pattern panicked: %v", src, r.panic)
	}
	return pat
}

func suCall(t *rapid.T, what, src, s string, f func() (bool, caps)) suResult {
	r := guarded(f)
	if r.hung {
		t.Fatalf("%s pattern %q subject %q did not return within %v", what, src, s, rxWatchdog)
	}
	if r.panic != nil {
		t.Fatalf("%s pattern %q subject %q panicked: %v", what, src, s, r.panic)
	}
	return r
}

func capStr(ok bool, c caps) string {
	if !ok {
		return "nomatch"
	}
	var sb strings.Builder
	for i := 0; i < 20; i += 2 {
		if i > 0 && c[i] < 0 && c[i+1] < 0 {
			continue
		}
		fmt.Fprintf(&sb, "%d:(%d,%d) ", i/2, c[i], c[i+1])
	}
	return sb.String()
}

// pathOf: which execution path the compiled pattern takes (from the disassembly).
func pathOf(pat regex.Pattern) string {
	d := pat.String()
	switch {
	case strings.HasPrefix(d, "0: Literal"):
		return "path_literal"
	case strings.HasPrefix(d, "0: OnePass"):
		return "path_onepass"
	case strings.HasPrefix(d, "0: Prefix"):
		return "path_prefix"
	}
	return "path_general"
}

func goResult(re *regexp.Regexp, s string) (bool, caps) {
	m := re.FindStringSubmatchIndex(s)
	if m == nil {
		return false, noCaps
	}
	c := noCaps
	for i := 0; i < len(m) && i < 20; i++ {
		c[i] = int32(m[i])
	}
	return true, c
}

func sameResult(ok1 bool, c1 caps, ok2 bool, c2 caps) bool {
	if ok1 != ok2 {
		return false
	}
	return !ok1 || c1 == c2
}

type knownOpt struct {
	key string
	set func(*omOpts)
}

var rxKnownOpts = []knownOpt{
	{"space-class-lacks-vt-ff", func(o *omOpts) { o.spaceVTFF = true }},
}

func TestC37(t *testing.T) {
	rec := ev.New("C37", "rapid-generated pattern ASTs (literals incl. escaped specials, dot, classes/negated/ranges/shortcuts/posix, ^ $ \\A \\Z, greedy and lazy ? * +, groups, alternation incl. empty alternatives, (?i)/(?-i), (?q)) rendered to Suneido and Go syntax, x 3 subjects each (half embed a sample of the pattern; alphabet abcABC01_ -.\\n plus specials, \\r when the pattern has no $). Own-oracle cases add \\< \\>, $ with \\r, high bytes, start positions, LastMatch, All. Non-trivial: pattern uses a quantifier, alternation, class, anchor or flag and the subject is non-empty; distinct = (Suneido pattern, subject, entry point).")
	rec.Assumptions = []string{
		"\\< and \\> are outside the Go subset and are judged by the one-sided definition (not preceded / not followed by a word character) that the repo's stdlib patterns rely on; an earlier two-sided reading of the suneidoc prose was a false alarm and was withdrawn",
		"Go regexp (leftmost-first, (?m), '.' rendered as [^\\r\\n], \\Z as \\z) is the reference on the common subset; ASCII subjects there",
		"CR LF is one line end for $ (documented by the repo's own test), $ with \\r is judged by the harness's own matcher only",
		"(?i)/(?-i) are textual toggles; the renderer restores the flag before every ')' so that group scoping cannot matter",
		"own backtracking matcher is used only for patterns without * or + over a nullable body",
		"start positions for FirstMatch/LastMatch are within [0, len(subject)]",
		"'.' matches NUL (as the code and Go do); the suneidoc note that dot excludes NUL is not checked",
	}
	defer rec.Write()

	var knownOn []knownOpt
	for _, k := range rxKnownOpts {
		if _, ok := kf.Known("C37", k.key); ok {
			knownOn = append(knownOn, k)
		}
	}
	_, bigKnown := kf.Known("C37", "program-over-32k")
	lazyNullEntry, lazyNullKnown := kf.Known("C37", "lazy-star-nullable-body-in-loop")
	eosDirEntry, eosDirKnown := kf.Known("C37", "literal-strend-followed-by-directive")

	// ---- differential against Go regexp on the common subset
	rt.Check(t, rec, "vs_go", 5000, 70000, func(t *rapid.T) {
		cfg := &gcfg{nullableLoop: uni(t, 10, "nullableloops") < 2}
		n := genPattern(t, cfg)
		if lazyNullKnown && lazyStarNullableInLoop(n, false) {
			rec.Excluded("lazy-star-nullable-body-in-loop")
			rec.Known(lazyNullEntry.What)
			return
		}
		if eosDirKnown && literalEosThenDirective(n) {
			rec.Excluded("literal-strend-followed-by-directive")
			rec.Known(eosDirEntry.What)
			return
		}
		su, gs := renderSu(n), renderGo(n)
		re, err := regexp.Compile(gs)
		if err != nil {
			t.Fatalf("harness: Go refuses %q (from %q): %v", gs, su, err)
		}
		pat := suCompile(t, su)
		path := pathOf(pat)
		cons := constructs(n)
		nloop := hasNullableLoop(n)
		alpha := subjAlpha + subjExtra
		hasEol := n.has(kEol)
		if !hasEol {
			alpha += "\r\r"
		}
		ntPat := false
		for _, c := range cons {
			rec.Label("construct_" + c)
			if c != "lit" && c != "group" && c != "quoted" {
				ntPat = true
			}
		}
		rec.Label(path)
		// the one-pass decision: choices whose continuations share first bytes,
		// in particular only through (?i)
		nch, chOverlap, chByCase := choiceOverlap(n)
		mixedCase := false
		{
			ciLeaf, csLetter := false, false
			n.walk(func(x *node) {
				if x.kind == kLit || x.kind == kClass || x.kind == kQuoted {
					ciLeaf = ciLeaf || x.ci
					csLetter = csLetter || (!x.ci && x.kind == kLit && flipCase(x.c) != x.c)
				}
			})
			mixedCase = ciLeaf && csLetter
		}
		bos := startsWithBos(n)
		rec.LabelIf(cfg.shape != "", "shape_"+cfg.shape)
		rec.LabelIf(bos && nch > 0, "bos_with_choice")
		rec.LabelIf(bos && nch > 0 && mixedCase, "bos_with_choice_mixed_case_modes")
		rec.LabelIf(bos && chOverlap, "bos_choice_overlapping_first_bytes")
		rec.LabelIf(bos && chByCase, "bos_choice_overlap_only_through_ignorecase")
		rec.LabelIf(path == "path_onepass" && nch > 0, "onepass_with_choice")
		rec.LabelIf(path == "path_onepass" && nch > 0 && mixedCase, "onepass_with_mixed_case_branches")
		rec.LabelIf(nloop, "pattern_with_nullable_loop")
		rec.LabelIf(cfg.groups > 0, "pattern_with_groups")
		rec.LabelIf(cfg.groups > 9, "pattern_with_more_than_9_groups")
		for k := 0; k < 3; k++ {
			s := genSubject(t, n, alpha, omOpts{})
			if hasEol {
				// $ before \r is outside the common subset (own_oracle covers it);
				// \r can still come from the pattern's own literals
				s = strings.ReplaceAll(s, "\r", "x")
			}
			gok, gc := goResult(re, s)
			r := suCall(t, "Match", su, s, func() (bool, caps) {
				var c regex.Captures
				ok := pat.Match(s, &c)
				return ok, caps(c)
			})
			if !r.ok {
				r.cap = noCaps
			}
			if !sameResult(r.ok, r.cap, gok, gc) {
				t.Fatalf("pattern %q (Go %q) subject %q [%s]:\n  Suneido: %s\n  Go:      %s", su, gs, s, path,
					capStr(r.ok, r.cap), capStr(gok, gc))
			}
			rb := suCall(t, "Match(nil)", su, s, func() (bool, caps) { return pat.Match(s, nil), noCaps })
			if rb.ok != gok {
				t.Fatalf("pattern %q subject %q: Match without captures = %v, Go match = %v", su, s, rb.ok, gok)
			}
			if rm := pat.Matches(s); rm != gok {
				t.Fatalf("pattern %q subject %q: Matches = %v, Go match = %v", su, s, rm, gok)
			}
			if !nloop {
				oc, ook, over := ownFirst(n, s, 0, omOpts{})
				if over {
					rec.Label("own_matcher_budget_exceeded")
				} else {
					rec.Label("own_matcher_crosschecked_with_go")
					if !sameResult(ook, oc, gok, gc) {
						t.Fatalf("harness: own matcher disagrees with Go: pattern %q (Go %q) subject %q:\n  own: %s\n  Go:  %s",
							su, gs, s, capStr(ook, oc), capStr(gok, gc))
					}
				}
			}
			rec.Case(ntPat && s != "", "go|"+su+"|"+s)
			rec.LabelIf(chByCase && bos && gok, "bos_choice_overlap_only_through_ignorecase_match")
			rec.LabelIf(path == "path_onepass" && nch > 0 && mixedCase && gok, "onepass_with_mixed_case_branches_match")
			if gok {
				rec.Label("match")
				rec.LabelIf(gc[0] > 0, "match_not_at_start")
				rec.LabelIf(gc[1] == gc[0], "match_empty")
				ng := 0
				for g := 1; g < 10; g++ {
					if gc[2*g] >= 0 {
						ng++
					}
				}
				rec.LabelIf(ng > 0, "match_with_captured_groups")
			} else {
				rec.Label("nomatch")
			}
			rec.LabelIf(strings.Contains(s, "\n"), "subject_with_newline")
			rec.LabelIf(strings.Contains(s, "\r"), "subject_with_return")
			cls := "go_" + path + map[bool]string{true: "_match", false: "_nomatch"}[gok]
			if rec.WantSample(cls) {
				rec.Sample(cls, map[string]string{"suneido": su, "go": gs, "subject": s, "result": capStr(gok, gc)})
			}
		}
	})

	// ---- own matcher: Suneido-only constructs and entry points
	rt.Check(t, rec, "own_oracle", 3500, 50000, func(t *rapid.T) {
		cfg := &gcfg{suOnly: true, highBytes: true}
		n := genPattern(t, cfg)
		if eosDirKnown && literalEosThenDirective(n) {
			rec.Excluded("literal-strend-followed-by-directive")
			rec.Known(eosDirEntry.What)
			return
		}
		su := renderSu(n)
		pat := suCompile(t, su)
		path := pathOf(pat)
		ntPat := false
		for _, c := range constructs(n) {
			rec.Label("own_construct_" + c)
			if c != "lit" && c != "group" && c != "quoted" {
				ntPat = true
			}
		}
		alpha := subjAlpha + subjExtra + "\r\r\xe9\xff"
		if uni(t, 4, "ctl") == 0 {
			alpha += "\x00\v\f"
		}
		laxAll := omOpts{}
		for _, k := range knownOn {
			k.set(&laxAll)
		}
		// expect returns the expected result of fn under the documentation, or
		// skip=true if the case belongs to a listed known-finding class (then it
		// is checked against the listed behaviour instead).
		expect := func(fn func(omOpts) (caps, bool, bool)) (c caps, ok bool, skip bool, over bool) {
			c, ok, over = fn(omOpts{})
			if over || len(knownOn) == 0 {
				return
			}
			lc, lok, lover := fn(laxAll)
			if lover {
				return c, ok, false, true
			}
			if sameResult(ok, c, lok, lc) {
				return
			}
			key := "combined"
			for _, k := range knownOn {
				var o omOpts
				k.set(&o)
				if kc, kok, _ := fn(o); !sameResult(ok, c, kok, kc) {
					key = k.key
					break
				}
			}
			e, _ := kf.Known("C37", key)
			if key == "combined" {
				e, _ = kf.Known("C37", knownOn[0].key)
			}
			rec.Excluded(key)
			rec.Known(e.What)
			return lc, lok, true, false
		}
		for k := 0; k < 3; k++ {
			s := genSubject(t, n, alpha, omOpts{})
			start := 0
			if uni(t, 3, "usestart") == 0 {
				start = uni(t, len(s)+1, "start")
			}
			// FirstMatch(s, start)
			ec, eok, skip, over := expect(func(o omOpts) (caps, bool, bool) { return ownFirst(n, s, start, o) })
			if over {
				rec.Label("own_matcher_budget_exceeded")
				continue
			}
			r := suCall(t, "FirstMatch", su, s, func() (bool, caps) {
				var c regex.Captures
				ok := pat.FirstMatch(s, start, &c)
				return ok, caps(c)
			})
			if !r.ok {
				r.cap = noCaps
			}
			if !sameResult(r.ok, r.cap, eok, ec) {
				t.Fatalf("pattern %q subject %q FirstMatch from %d [%s]:\n  Suneido:  %s\n  expected: %s", su, s, start, path,
					capStr(r.ok, r.cap), capStr(eok, ec))
			}
			if !skip {
				rec.Case(ntPat && s != "", fmt.Sprint("first|", su, "|", s, "|", start))
				rec.LabelIf(eok, "own_match")
				rec.LabelIf(!eok, "own_nomatch")
				rec.LabelIf(start > 0, "own_start_position>0")
				rec.LabelIf(n.has(kEol) && strings.Contains(s, "\r"), "own_dollar_with_return_in_subject")
				rec.LabelIf(strings.ContainsAny(s, "\xe9\xff"), "own_subject_with_high_bytes")
				rec.Label("own_" + path)
				cls := "own_first_" + map[bool]string{true: "match", false: "nomatch"}[eok]
				if (n.has(kWordStart) || n.has(kWordEnd)) && rec.WantSample(cls) {
					rec.Sample(cls, map[string]any{"suneido": su, "subject": s, "start": start, "result": capStr(eok, ec)})
				}
			}
			// LastMatch(s, pos)
			if uni(t, 3, "dolast") == 0 {
				pos := uni(t, len(s)+1, "pos")
				ec, eok, skip, over := expect(func(o omOpts) (caps, bool, bool) { return ownLast(n, s, pos, o) })
				if e, known := kf.Known("C37", "lastmatch-starts-after-pos"); known && !over && pos < len(s) {
					// known class: some match begins after pos
					if _, later, lover := ownFirst(n, s, pos+1, laxAll); later || lover {
						rec.Excluded("lastmatch-starts-after-pos")
						rec.Known(e.What)
						over = true
					}
				}
				if !over {
					r := suCall(t, "LastMatch", su, s, func() (bool, caps) {
						var c regex.Captures
						ok := pat.LastMatch(s, pos, &c)
						return ok, caps(c)
					})
					if !r.ok {
						r.cap = noCaps
					}
					if !sameResult(r.ok, r.cap, eok, ec) {
						t.Fatalf("pattern %q subject %q LastMatch from %d [%s]:\n  Suneido:  %s\n  expected: %s", su, s, pos, path,
							capStr(r.ok, r.cap), capStr(eok, ec))
					}
					if !skip {
						rec.Case(ntPat && s != "", fmt.Sprint("last|", su, "|", s, "|", pos))
						rec.LabelIf(eok, "own_lastmatch_match")
						rec.LabelIf(!eok, "own_lastmatch_nomatch")
					}
				}
			}
			// All(s): successive first matches, next search from max(end, start+1)
			if uni(t, 3, "doall") == 0 {
				var want [][2]int32
				skipAll := false
				for p := 0; p <= len(s); {
					p0 := p
					ec, eok, skip, over := expect(func(o omOpts) (caps, bool, bool) { return ownFirst(n, s, p0, o) })
					if over || skip {
						skipAll = true
						break
					}
					if !eok {
						break
					}
					want = append(want, [2]int32{ec[0], ec[1]})
					p = max(int(ec[1]), int(ec[0])+1)
				}
				if !skipAll {
					var got [][2]int32
					suCall(t, "All", su, s, func() (bool, caps) {
						for c := range pat.All(s) {
							got = append(got, [2]int32{c[0], c[1]})
							if len(got) > len(s)+2 {
								break
							}
						}
						return true, noCaps
					})
					if fmt.Sprint(got) != fmt.Sprint(want) {
						t.Fatalf("pattern %q subject %q All:\n  Suneido:  %v\n  expected: %v", su, s, got, want)
					}
					rec.Case(ntPat && len(want) > 1, fmt.Sprint("all|", su, "|", s))
					rec.LabelIf(len(want) > 1, "own_all_several_matches")
				}
			}
		}
	})

	// ---- never hangs: nested quantifiers on long subjects, result compared with Go
	rt.Check(t, rec, "nohang", 200, 3000, func(t *rapid.T) {
		depth := 2 + uni(t, 4, "nest")
		letters := "ab"
		var build func(d int) *node
		cfg := &gcfg{}
		build = func(d int) *node {
			var body *node
			if d == 0 {
				body = &node{kind: kLit, c: letters[uni(t, 2, "c")]}
				if uni(t, 4, "dot") == 0 {
					body = &node{kind: kDot}
				}
			} else {
				inner := build(d - 1)
				switch uni(t, 4, "shape") {
				case 0:
					body = group(cfg, inner)
				case 1:
					body = group(cfg, &node{kind: kAlt, sub: []*node{inner, {kind: kCat, sub: []*node{{kind: kLit, c: 'a'}, {kind: kLit, c: 'a'}}}}})
				case 2:
					body = group(cfg, &node{kind: kCat, sub: []*node{inner, {kind: kQuant, min: 0, max: 1, sub: []*node{{kind: kLit, c: 'a'}}}}})
				default:
					body = group(cfg, &node{kind: kCat, sub: []*node{{kind: kLit, c: 'a'}, inner}})
				}
			}
			q := &node{kind: kQuant, sub: []*node{body}, min: uni(t, 2, "min"), max: -1,
				lazy: uni(t, 5, "lazy") == 0}
			return q
		}
		n := &node{kind: kCat, sub: []*node{build(depth)}}
		switch uni(t, 4, "tail") {
		case 0:
			n.sub = append(n.sub, &node{kind: kLit, c: 'c'})
		case 1:
			n.sub = append(n.sub, &node{kind: kEol})
		case 2:
			n.sub = append(n.sub, &node{kind: kEos})
		}
		if rapid.Bool().Draw(t, "bos") {
			n.sub = append([]*node{{kind: kBos}}, n.sub...)
		}
		n.number()
		if lazyNullKnown && lazyStarNullableInLoop(n, false) {
			rec.Excluded("lazy-star-nullable-body-in-loop")
			rec.Known(lazyNullEntry.What)
			return
		}
		su, gs := renderSu(n), renderGo(n)
		re := regexp.MustCompile(gs)
		pat := suCompile(t, su)
		ln := pick(t, []int{30, 200, 1000, 3000}, "len")
		s := strings.Repeat("a", ln)
		if uni(t, 3, "bs") == 0 {
			s = strings.Repeat("ab", ln/2)
		}
		switch uni(t, 3, "end") {
		case 0:
			s += "c"
		case 1:
			s += "b"
		}
		gok, gc := goResult(re, s)
		t0 := time.Now()
		r := suCall(t, "Match", su, s, func() (bool, caps) {
			var c regex.Captures
			ok := pat.Match(s, &c)
			return ok, caps(c)
		})
		el := time.Since(t0)
		if !r.ok {
			r.cap = noCaps
		}
		if !sameResult(r.ok, r.cap, gok, gc) {
			t.Fatalf("pattern %q subject %d bytes %.20q…:\n  Suneido: %s\n  Go:      %s", su, len(s), s, capStr(r.ok, r.cap), capStr(gok, gc))
		}
		rec.Case(true, "nohang|"+su+"|"+fmt.Sprint(len(s), s[len(s)-1:]))
		rec.Label(fmt.Sprintf("nohang_nesting_%d", depth+1))
		rec.LabelIf(hasNullableLoop(n), "nohang_nullable_loop")
		rec.LabelIf(gok, "nohang_match")
		rec.LabelIf(!gok, "nohang_nomatch")
		rec.LabelIf(el > time.Second, "nohang_slower_than_1s")
		if rec.WantSample("nohang") {
			rec.Sample("nohang", map[string]any{"suneido": su, "subject_len": len(s), "result": capStr(gok, gc)})
		}
	})

	// ---- compiled program size: around the 32K limit of the 16-bit offsets
	rt.Check(t, rec, "bigprog", 12, 200, func(t *rapid.T) {
		k := 900 + uni(t, 201, "classes") // 33 bytes each
		shape := uni(t, 3, "shape")
		body := strings.Repeat("[^a]", k)
		su := map[int]string{0: body + "b", 1: "(" + body + ")*b", 2: "x|" + body + "b"}[shape]
		var pat regex.Pattern
		func() {
			defer func() {
				if e := recover(); e != nil {
					if _, isRT := e.(runtime.Error); isRT {
						t.Fatalf("Compile of %d-class pattern: %v", k, e)
					}
					pat = "" // refused loudly
				}
			}()
			pat = regex.Compile(su)
		}()
		if pat == "" {
			rec.Label("bigprog_refused")
			rec.Case(true, fmt.Sprint("big|", shape, "|", k))
			return
		}
		if len(pat) > 32767 && bigKnown {
			e, _ := kf.Known("C37", "program-over-32k")
			rec.Excluded("program-over-32k")
			rec.Known(e.What)
			return
		}
		s := strings.Repeat("x", k) + "b"
		re := regexp.MustCompile("(?m)" + su)
		gok, gc := goResult(re, s)
		r := suCall(t, "Match", fmt.Sprintf("<%d classes, shape %d, %d bytes compiled>", k, shape, len(pat)), "x…b",
			func() (bool, caps) {
				var c regex.Captures
				ok := pat.Match(s, &c)
				return ok, caps(c)
			})
		if !r.ok {
			r.cap = noCaps
		}
		if r.ok != gok || r.cap[0] != gc[0] || r.cap[1] != gc[1] {
			t.Fatalf("%d classes shape %d (%d bytes compiled): Suneido %s, Go %s", k, shape, len(pat), capStr(r.ok, r.cap), capStr(gok, gc))
		}
		rec.Case(true, fmt.Sprint("big|", shape, "|", k))
		rec.LabelIf(len(pat) > 32767, "bigprog_over_32k")
		rec.LabelIf(len(pat) <= 32767, "bigprog_under_32k")
	})
}

// FuzzC37: arbitrary pattern and subject bytes. Compile may refuse with a
// "regex: ..." panic; anything else must not panic or hang, the entry points
// must be consistent with each other, and a pattern without special characters
// must behave like strings.Index.
func FuzzC37(f *testing.F) {
	for _, p := range []string{"a", "a*b", "(a|b)+c", `\Aab\Z`, "[a-c]+", "(?i)abc", `\<a\>`, "(?q)a.c(?-q).", "^a$", "a|", "[[:alpha:]]x", "(a*)*b", "x*$", `\d\W`, "[^a]"} {
		f.Add(p, "abc\nab")
	}
	_, bigKnown := kf.Known("C37", "program-over-32k")
	f.Fuzz(func(t *testing.T, src, s string) {
		if len(src) > 2000 || len(s) > 2000 {
			return
		}
		msg := ""
		r := guarded(func() (bool, caps) {
			msg = fuzzC37One(src, s, bigKnown)
			return true, noCaps
		})
		if r.hung {
			t.Fatalf("pattern %q subject %q: no answer within %v", src, s, rxWatchdog)
		}
		if r.panic != nil {
			t.Fatalf("pattern %q subject %q: panic %v", src, s, r.panic)
		}
		if msg != "" {
			t.Fatalf("pattern %q subject %q: %s", src, s, msg)
		}
	})
}

// fuzzC37One returns "" or a description of the inconsistency; panics other
// than a refusal by Compile propagate to the caller.
func fuzzC37One(src, s string, bigKnown bool) string {
	var pat regex.Pattern
	refused := false
	func() {
		defer func() {
			if e := recover(); e != nil {
				if es, ok := e.(string); ok && strings.HasPrefix(es, "regex: ") {
					refused = true
					return
				}
				panic(e)
			}
		}()
		pat = regex.Compile(src)
	}()
	if refused || (len(pat) > 32767 && bigKnown) {
		return ""
	}
	var c regex.Captures
	ok1 := pat.Match(s, &c)
	c1 := caps(c)
	if ok2 := pat.Match(s, nil); ok2 != ok1 {
		return fmt.Sprintf("Match with captures %v, without %v", ok1, ok2)
	}
	if ok1 {
		if !(0 <= c1[0] && c1[0] <= c1[1] && int(c1[1]) <= len(s)) {
			return fmt.Sprintf("bad match span %v", c1[:2])
		}
		for g := 1; g < 10; g++ {
			a, b := c1[2*g], c1[2*g+1]
			if a == -1 && b == -1 {
				continue
			}
			if !(c1[0] <= a && a <= b && b <= c1[1]) {
				return fmt.Sprintf("group %d span (%d,%d) outside match %v", g, a, b, c1[:2])
			}
		}
		// the match found from position 0 is also the first match from its own start
		var c2 regex.Captures
		if ok := pat.FirstMatch(s, int(c1[0]), &c2); !ok || caps(c2) != c1 {
			return fmt.Sprintf("Match %v but FirstMatch from %d: ok=%v %v", c1, c1[0], ok, c2)
		}
	}
	// plain-text patterns: strings.Index is the reference
	if !strings.ContainsAny(src, suSpecial) {
		i := strings.Index(s, src)
		if (i >= 0) != ok1 || (ok1 && (int(c1[0]) != i || int(c1[1]) != i+len(src))) {
			return fmt.Sprintf("literal pattern: Suneido %v %v, strings.Index %d", ok1, c1[:2], i)
		}
	}
	return ""
}
