package utilx

import (
	"bytes"
	"fmt"
	"strings"
	"testing"

	"github.com/apmckinlay/gsuneido/util/ascii"
	"github.com/apmckinlay/gsuneido/util/regex"
	"github.com/apmckinlay/gsuneido/util/str"
	"github.com/apmckinlay/gsuneido/util/tr"
	"pgregory.net/rapid"
	"verifharness/internal/ev"
	"verifharness/internal/kf"
	"verifharness/internal/rt"
)

// ---------------------------------------------------------------- set specs

// A set spec is a list of elements rendered so that its reading under the
// documentation of string.Tr / string.Find1of is unambiguous: '^' only as the
// negation prefix (or not first), a literal '-' only first or last, ranges
// lo-hi whose end points are not '-'.
type setElem struct {
	lo, hi  byte
	isRange bool
}

type setSpec struct {
	neg   bool
	elems []setElem
}

func (sp setSpec) render() string {
	var sb strings.Builder
	if sp.neg {
		sb.WriteByte('^')
	}
	for _, e := range sp.elems {
		sb.WriteByte(e.lo)
		if e.isRange {
			sb.WriteByte('-')
			sb.WriteByte(e.hi)
		}
	}
	return sb.String()
}

// expand: the characters of the set in order (a reversed range is empty).
func (sp setSpec) expand() []byte {
	var out []byte
	for _, e := range sp.elems {
		if !e.isRange {
			out = append(out, e.lo)
			continue
		}
		for c := int(e.lo); c <= int(e.hi); c++ {
			out = append(out, byte(c))
		}
	}
	return out
}

const setLetters = "abcdefxyzABCXYZ0129 \t\n.,;"

func genSetChar(t *rapid.T, first bool) byte {
	for {
		var c byte
		switch w := uni(t, 20, "chcls"); {
		case w < 15:
			c = setLetters[uni(t, len(setLetters), "ch")]
		case w < 17:
			c = "^*+\\[]&"[uni(t, 7, "ch")]
		default:
			c = byte(uni(t, 256, "byte"))
		}
		if c == '-' || (first && c == '^') {
			continue
		}
		return c
	}
}

// genSetSpec: distinct=true refuses elements that would repeat a character.
func genSetSpec(t *rapid.T, allowNeg, distinct bool, maxElems int) setSpec {
	var sp setSpec
	if allowNeg {
		sp.neg = uni(t, 4, "neg") == 0
	}
	seen := map[byte]bool{}
	n := uni(t, maxElems+1, "nelems")
	dashFirst := uni(t, 12, "dashfirst") == 0
	dashLast := uni(t, 12, "dashlast") == 0
	if dashFirst && n > 0 {
		sp.elems = append(sp.elems, setElem{lo: '-'})
		seen['-'] = true
	}
	for i := 0; i < n; i++ {
		first := len(sp.elems) == 0 && !sp.neg
		var e setElem
		if uni(t, 10, "range") < 4 {
			lo := genSetChar(t, first)
			var hi byte
			switch w := uni(t, 10, "span"); {
			case w == 0 && len(sp.elems) > 0: // reversed: empty (never first: tr.New("z-a^x") would
				// yield a set that starts with '^' and reads as a complement)
				hi = lo - byte(1+uni(t, 3, "rev"))
				if hi > lo || hi == '-' {
					hi = lo
				}
			case w == 1: // up to the last byte value
				lo = 0xf8 + byte(uni(t, 8, "hilo"))
				hi = 0xff
			default:
				d := uni(t, 8, "len")
				if int(lo)+d > 255 {
					d = 255 - int(lo)
				}
				hi = lo + byte(d)
			}
			if hi == '-' {
				hi++
			}
			e = setElem{lo: lo, hi: hi, isRange: true}
		} else {
			e = setElem{lo: genSetChar(t, first)}
			e.hi = e.lo
		}
		dup := false
		for c := int(e.lo); c <= int(e.hi); c++ {
			if seen[byte(c)] {
				dup = true
			}
		}
		if distinct && dup {
			continue
		}
		for c := int(e.lo); c <= int(e.hi); c++ {
			seen[byte(c)] = true
		}
		sp.elems = append(sp.elems, e)
	}
	if dashLast && len(sp.elems) > 0 && !(distinct && seen['-']) {
		sp.elems = append(sp.elems, setElem{lo: '-', hi: '-'})
	}
	return sp
}

// genSrc: source string biased towards the characters of the sets.
func genSrc(t *rapid.T, pool []byte, maxLen int) string {
	r := newRng(t, "src")
	n := r.n(maxLen + 1)
	b := make([]byte, n)
	for i := range b {
		switch {
		case len(pool) > 0 && r.n(10) < 6:
			b[i] = pool[r.n(len(pool))]
		case r.n(10) < 8:
			b[i] = setLetters[r.n(len(setLetters))]
		default:
			b[i] = byte(r.n(256))
		}
		if i > 0 && r.n(4) == 0 {
			b[i] = b[i-1] // runs, for squeezing
		}
	}
	return string(b)
}

// refTr: string.Tr as documented (suneidoc string.Tr; squeeze as in Software
// Tools' translit, which the package says it is based on).
func refTr(src string, from, to setSpec) string {
	if src == "" || (!from.neg && len(from.elems) == 0) {
		return src
	}
	F, T := from.expand(), to.expand()
	last := len(T) - 1
	var out []byte
	prevLast := false
	for i := 0; i < len(src); i++ {
		c := src[i]
		idx := bytes.IndexByte(F, c)
		if from.neg {
			if idx >= 0 { // not in the complemented set
				out = append(out, c)
				prevLast = false
				continue
			}
			if len(T) == 0 {
				continue // delete
			}
			if !prevLast {
				out = append(out, T[last])
			}
			prevLast = true
			continue
		}
		switch {
		case idx < 0:
			out = append(out, c)
			prevLast = false
		case len(T) == 0:
			// delete
		case len(T) >= len(F):
			out = append(out, T[idx])
			prevLast = false
		case idx >= last: // padded with the last character, squeezed
			if !prevLast {
				out = append(out, T[last])
			}
			prevLast = true
		default:
			out = append(out, T[idx])
			prevLast = false
		}
	}
	return string(out)
}

func lowerB(c byte) byte {
	if 'A' <= c && c <= 'Z' {
		return c + 32
	}
	return c
}
func upperB(c byte) byte {
	if 'a' <= c && c <= 'z' {
		return c - 32
	}
	return c
}
func mapB(s string, f func(byte) byte) string {
	b := []byte(s)
	for i := range b {
		b[i] = f(b[i])
	}
	return string(b)
}

// naive substring search (reference for Before/After/Split)
func findFirst(s, sub string) int {
	for i := 0; i+len(sub) <= len(s); i++ {
		if s[i:i+len(sub)] == sub {
			return i
		}
	}
	return -1
}
func findLast(s, sub string) int {
	for i := len(s) - len(sub); i >= 0; i-- {
		if s[i:i+len(sub)] == sub {
			return i
		}
	}
	return -1
}

// ---------------------------------------------------------------- Replacement

type repTok struct {
	kind byte // 'c' literal char, '&', 'g' group digit, 'u','l','U','L','E', '\\'
	c    byte
}

func renderRep(toks []repTok) string {
	var sb strings.Builder
	for _, k := range toks {
		switch k.kind {
		case 'c':
			sb.WriteByte(k.c)
		case '&':
			sb.WriteByte('&')
		case 'g':
			sb.WriteByte('\\')
			sb.WriteByte('0' + k.c)
		case '\\':
			sb.WriteString(`\\`)
		default:
			sb.WriteByte('\\')
			sb.WriteByte(k.kind)
		}
	}
	return sb.String()
}

// refReplacement: string.Replace documentation. groupResets=true models the
// listed known finding (a \N group reference ends \U / \L).
func refReplacement(s string, toks []repTok, cap *regex.Captures, groupResets bool) string {
	var out []byte
	mode := byte('E') // 'U', 'L' or 'E'
	one := byte(0)    // pending \u or \l
	emit := func(c byte) {
		switch {
		case one == 'u':
			c = upperB(c)
			one = 0
		case one == 'l':
			c = lowerB(c)
			one = 0
		case mode == 'U':
			c = upperB(c)
		case mode == 'L':
			c = lowerB(c)
		}
		out = append(out, c)
	}
	group := func(g int) {
		for i := cap[2*g]; i < cap[2*g+1]; i++ {
			emit(s[i])
		}
	}
	for _, k := range toks {
		switch k.kind {
		case 'c':
			emit(k.c)
		case '&':
			group(0)
		case 'g':
			group(int(k.c))
			if groupResets {
				mode, one = 'E', 0
			}
		case '\\':
			out = append(out, '\\')
		case 'u', 'l':
			one = k.kind
		case 'U', 'L', 'E':
			mode = k.kind
			one = 0
		}
	}
	return string(out)
}

// ---------------------------------------------------------------- the check

func TestC38(t *testing.T) {
	rec := ev.New("C38", "rapid-generated byte strings (letters, separators, all 256 byte values, runs) with translation sets (characters, ranges incl. reversed and up to \\xff, '^' complement, literal '-' first/last, to-set longer / equal / shorter / empty), case pairs (case-perturbed, prefix, one byte changed), separators for Before/After/Split/Join, Find1of sets, replacement templates (& \\0-\\9 \\u \\l \\U \\L \\E \\\\ \\=). Non-trivial: the operation changes or finds something (translation differs from the source, strings differ only in case or share a prefix, separator occurs, template has a special sequence); distinct = rendered case.")
	rec.Assumptions = []string{
		"string.Tr: from-set characters are distinct; with a '^' from-set the to-set has at most one character; squeezing applies to runs of source characters that map to the last to-character (Software Tools translit), an untranslated equal character is not squeezed",
		"Find1of/tr sets: a literal '-' only first or last, '^' only as prefix or not first (the documented forms)",
		"Replacement: \\u/\\l are generated only outside \\U/\\L and directly before a literal, & or \\N; undocumented escapes (\\n \\t \\& \\x) and a trailing backslash are not generated",
		"ascii.IsSpace is not judged on \\f",
	}
	defer rec.Write()

	// ---- tr.New / tr.Replace
	rt.Check(t, rec, "tr", 4000, 40000, func(t *rapid.T) {
		from := genSetSpec(t, true, true, 4)
		to := genSetSpec(t, false, false, 3)
		if from.neg {
			// complemented from-set: at most one to-character
			k := uni(t, 3, "tolen")
			to = setSpec{}
			if k > 0 {
				to.elems = []setElem{{lo: genSetChar(t, true)}}
				to.elems[0].hi = to.elems[0].lo
			}
		} else {
			switch uni(t, 6, "tomode") {
			case 0:
				to = setSpec{} // delete
			case 1: // same length as from, by ranges where possible
				to = setSpec{}
				for _, e := range from.elems {
					if e.isRange && e.hi >= e.lo {
						d := e.hi - e.lo
						lo := byte('A' + uni(t, 20, "tolo"))
						to.elems = append(to.elems, setElem{lo: lo, hi: lo + d, isRange: true})
					} else if !e.isRange {
						c := genSetChar(t, len(to.elems) == 0)
						to.elems = append(to.elems, setElem{lo: c, hi: c})
					}
				}
			}
		}
		F := from.expand()
		src := genSrc(t, F, 24)
		fs, ts := from.render(), to.render()
		// the rendered to-set must not start with '^' (undocumented)
		if strings.HasPrefix(ts, "^") {
			ts = "x" + ts
			to.elems = append([]setElem{{lo: 'x', hi: 'x'}}, to.elems...)
		}
		want := refTr(src, from, to)
		fset, tset := tr.New(fs), tr.New(ts)
		wantF := string(F)
		if from.neg {
			wantF = "^" + wantF
		}
		if string(fset) != wantF {
			t.Fatalf("tr.New(%q) = %q, want %q", fs, string(fset), wantF)
		}
		if string(tset) != string(to.expand()) {
			t.Fatalf("tr.New(%q) = %q, want %q", ts, string(tset), string(to.expand()))
		}
		got := tr.Replace(src, fset, tset)
		if got != want {
			t.Fatalf("%q.Tr(%q, %q) = %q, want %q", src, fs, ts, got, want)
		}
		T := to.expand()
		hasRange := false
		for _, e := range append(append([]setElem{}, from.elems...), to.elems...) {
			hasRange = hasRange || e.isRange
		}
		rec.Case(want != src, "tr|"+src+"|"+fs+"|"+ts)
		rec.LabelIf(from.neg, "tr_complement")
		rec.LabelIf(hasRange, "tr_with_range")
		rec.LabelIf(len(T) == 0 && want != src, "tr_delete")
		rec.LabelIf(!from.neg && len(T) > 0 && len(T) < len(F), "tr_to_shorter_padded")
		rec.LabelIf(!from.neg && len(T) > 0 && len(T) >= len(F), "tr_to_same_or_longer")
		rec.LabelIf(len(want) < len(src) && len(T) > 0, "tr_squeezed")
		rec.LabelIf(want == src, "tr_unchanged")
		for _, e := range from.elems {
			rec.LabelIf(e.isRange && e.hi == 0xff, "tr_range_to_0xff")
			rec.LabelIf(e.isRange && e.hi < e.lo, "tr_reversed_range")
		}
		cls := "tr"
		if from.neg {
			cls = "tr_complement"
		} else if len(T) > 0 && len(T) < len(F) {
			cls = "tr_padded"
		}
		if want != src && rec.WantSample(cls) {
			rec.Sample(cls, map[string]string{"src": src, "from": fs, "to": ts, "result": want})
		}
	})

	// ---- case folding and comparison
	rt.Check(t, rec, "case", 3000, 30000, func(t *rapid.T) {
		s1 := genSrc(t, []byte("aAzZ@[`{\xc0\xe0"), 12)
		r := newRng(t, "perturb")
		b := []byte(s1)
		mode := uni(t, 6, "pairmode")
		switch mode {
		case 0: // case-perturbed copy
			for i := range b {
				if r.n(2) == 0 {
					b[i] = flipCase(b[i])
				}
			}
		case 1: // prefix
			b = b[:r.n(len(b)+1)]
		case 2: // one byte changed (maybe only in case)
			if len(b) > 0 {
				i := r.n(len(b))
				if r.n(2) == 0 {
					b[i] = flipCase(b[i]) ^ byte(r.n(2))
				} else {
					b[i] = byte(r.n(256))
				}
			}
		case 3: // extended
			b = append(b, byte(r.n(256)))
		case 4:
			b = []byte(genSrc(t, []byte("aAzZ"), 12))
		}
		s2 := string(b)
		if got, want := str.ToLower(s1), mapB(s1, lowerB); got != want {
			t.Fatalf("ToLower(%q) = %q, want %q", s1, got, want)
		}
		if got, want := str.ToUpper(s1), mapB(s1, upperB); got != want {
			t.Fatalf("ToUpper(%q) = %q, want %q", s1, got, want)
		}
		l1, l2 := mapB(s1, lowerB), mapB(s2, lowerB)
		want := bytes.Compare([]byte(l1), []byte(l2))
		if got := str.CmpLower(s1, s2); got != want {
			t.Fatalf("CmpLower(%q, %q) = %d, want %d", s1, s2, got, want)
		}
		if got := str.CmpLower(s2, s1); got != -want {
			t.Fatalf("CmpLower(%q, %q) = %d, want %d", s2, s1, got, -want)
		}
		if got := str.EqualCI(s1, s2); got != (want == 0) {
			t.Fatalf("EqualCI(%q, %q) = %v, want %v", s1, s2, got, want == 0)
		}
		// Capitalize family
		wantCap := s1
		if len(s1) > 0 {
			wantCap = string([]byte{upperB(s1[0])}) + s1[1:]
		}
		if got := str.Capitalize(s1); got != wantCap {
			t.Fatalf("Capitalize(%q) = %q, want %q", s1, got, wantCap)
		}
		wantUn := s1
		if len(s1) > 0 {
			wantUn = string([]byte{lowerB(s1[0])}) + s1[1:]
		}
		if got := str.UnCapitalize(s1); got != wantUn {
			t.Fatalf("UnCapitalize(%q) = %q, want %q", s1, got, wantUn)
		}
		if got, w := str.Capitalized(s1), len(s1) > 0 && 'A' <= s1[0] && s1[0] <= 'Z'; got != w {
			t.Fatalf("Capitalized(%q) = %v", s1, got)
		}
		// common prefix
		cp := 0
		for cp < len(s1) && cp < len(s2) && s1[cp] == s2[cp] {
			cp++
		}
		if str.CommonPrefixLen(s1, s2) != cp || str.CommonPrefix(s1, s2) != s1[:cp] {
			t.Fatalf("CommonPrefix(%q, %q) = %q / %d, want %q", s1, s2, str.CommonPrefix(s1, s2), str.CommonPrefixLen(s1, s2), s1[:cp])
		}
		if got, w := str.HasPrefix(s1, s2), len(s2) <= len(s1) && s1[:len(s2)] == s2; got != w {
			t.Fatalf("HasPrefix(%q, %q) = %v", s1, s2, got)
		}
		nt := s1 != s2 && (want == 0 || cp > 0) || l1 != s1
		rec.Case(nt, "case|"+s1+"|"+s2)
		rec.LabelIf(want == 0 && s1 != s2, "case_equal_ignoring_case_only")
		rec.LabelIf(want != 0, "case_different")
		rec.LabelIf(want != bytes.Compare([]byte(s1), []byte(s2)), "case_order_differs_from_bytewise")
		rec.LabelIf(strings.ContainsAny(s1, "@[`{\xc0\xe0"), "case_boundary_bytes")
		if want == 0 && s1 != s2 && rec.WantSample("case_equal_ci") {
			rec.Sample("case_equal_ci", []string{s1, s2})
		}
	})

	// ---- case-insensitive equality / order over all 256 byte values: pairs that
	// are identical after ASCII folding except where a position is changed by
	// one bit (mostly the case bit 0x20, also on non-letters) or replaced
	rt.Check(t, rec, "cibits", 3000, 30000, func(t *rapid.T) {
		r := newRng(t, "pair")
		n := r.n(11)
		x := make([]byte, n)
		for i := range x {
			switch r.n(4) {
			case 0, 1:
				x[i] = byte(r.n(256))
			case 2:
				x[i] = "aAzZmM"[r.n(6)]
			default:
				const edge = "@[\\]^_`{|}~\x7f \x00-\r09\xc0\xe0\xdf\xff"
				x[i] = edge[r.n(len(edge))]
			}
		}
		y := append([]byte(nil), x...)
		caseOnly, bit20NonLetter, otherBit, replaced := 0, 0, 0, 0
		isLetter := func(c byte) bool { return flipCase(c) != c }
		// at least one changed position in 5 of 6 cases
		force := -1
		if n > 0 && r.n(6) != 0 {
			force = r.n(n)
		}
		for i := range y {
			w := r.n(20)
			if i == force && w < 11 {
				w = 11 + r.n(9)
			}
			switch {
			case w < 11: // unchanged
			case w < 14:
				if isLetter(y[i]) {
					y[i] = flipCase(y[i])
					caseOnly++
				}
			case w < 18: // the case bit, whatever the byte is
				y[i] ^= 0x20
				if isLetter(x[i]) {
					caseOnly++
				} else {
					bit20NonLetter++
				}
			case w < 19:
				y[i] ^= 1 << uint(r.n(8))
				otherBit++
			default:
				y[i] = byte(r.n(256))
				replaced++
			}
		}
		lenMode := uni(t, 10, "len")
		switch {
		case lenMode == 0 && len(y) > 0:
			y = y[:len(y)-1]
		case lenMode == 1:
			y = append(y, byte(r.n(256)))
		}
		s1, s2 := string(x), string(y)
		l1, l2 := mapB(s1, lowerB), mapB(s2, lowerB)
		wantEq := l1 == l2
		for _, p := range [][2]string{{s1, s2}, {s2, s1}} {
			if got := str.EqualCI(p[0], p[1]); got != wantEq {
				t.Fatalf("EqualCI(%q, %q) = %v, want %v (folded: %q vs %q)", p[0], p[1], got, wantEq, mapB(p[0], lowerB), mapB(p[1], lowerB))
			}
		}
		if !str.EqualCI(s1, s1) || !str.EqualCI(s1, mapB(s1, upperB)) || !str.EqualCI(mapB(s2, lowerB), s2) {
			t.Fatalf("EqualCI is false for a string and its own upper/lower form: %q / %q", s1, s2)
		}
		wantCmp := bytes.Compare([]byte(l1), []byte(l2))
		if got := str.CmpLower(s1, s2); got != wantCmp {
			t.Fatalf("CmpLower(%q, %q) = %d, want %d", s1, s2, got, wantCmp)
		}
		if got := str.CmpLower(s2, s1); got != -wantCmp {
			t.Fatalf("CmpLower(%q, %q) = %d, want %d", s2, s1, got, -wantCmp)
		}
		for _, v := range []string{s1, s2} {
			if got, want := str.ToLower(v), mapB(v, lowerB); got != want {
				t.Fatalf("ToLower(%q) = %q, want %q", v, got, want)
			}
			if got, want := str.ToUpper(v), mapB(v, upperB); got != want {
				t.Fatalf("ToUpper(%q) = %q, want %q", v, got, want)
			}
		}
		only20 := len(x) == len(y) && bit20NonLetter > 0 && otherBit == 0 && replaced == 0
		rec.Case(s1 != s2, "cibits|"+s1+"|"+s2)
		rec.LabelIf(only20, "ci_pair_differs_only_in_bit_0x20_on_non_letters")
		rec.LabelIf(only20 && caseOnly > 0, "ci_pair_bit_0x20_non_letter_in_mixed_case_context")
		rec.LabelIf(wantEq && s1 != s2, "ci_pair_equal_after_folding")
		rec.LabelIf(!wantEq && len(x) == len(y), "ci_pair_same_length_not_equal")
		rec.LabelIf(len(x) != len(y), "ci_pair_different_length")
		rec.LabelIf(otherBit > 0, "ci_pair_other_single_bit")
		rec.LabelIf(n == 0, "ci_pair_empty")
		for i := range x {
			if i < len(y) && x[i] != y[i] && x[i]^y[i] == 0x20 && !isLetter(x[i]) {
				rec.LabelIf(x[i] >= 0x80, "ci_bit_0x20_on_high_byte")
				rec.LabelIf(x[i] < 0x40, "ci_bit_0x20_on_digit_space_or_control")
				rec.LabelIf(x[i] >= 0x40 && x[i] < 0x80, "ci_bit_0x20_on_punctuation_next_to_letters")
			}
		}
		if only20 && rec.WantSample("ci_bit_0x20") {
			rec.Sample("ci_bit_0x20", []string{fmt.Sprintf("%q", s1), fmt.Sprintf("%q", s2)})
		}
	})

	// ---- Before/After, Split/Join, Subi/Subn, Cut, Opt
	rt.Check(t, rec, "split", 2500, 25000, func(t *rapid.T) {
		seps := []string{",", ", ", "ab", "aa", "", "-", "\n", "(", "a"}
		sep := pick(t, seps, "sep")
		r := newRng(t, "parts")
		np := r.n(6)
		var parts []string
		for i := 0; i < np; i++ {
			k := r.n(4)
			p := make([]byte, k)
			for j := range p {
				p[j] = "ab,- (\nx"[r.n(8)]
			}
			parts = append(parts, string(p))
		}
		s := strings.Join(parts, sep) // building the subject only
		i1, i2 := findFirst(s, sep), findLast(s, sep)
		wBF, wAF, wBL, wAL := s, s, s, s
		if i1 >= 0 {
			wBF, wAF = s[:i1], s[i1+len(sep):]
			wBL, wAL = s[:i2], s[i2+len(sep):]
		}
		if got := str.BeforeFirst(s, sep); got != wBF {
			t.Fatalf("BeforeFirst(%q, %q) = %q, want %q", s, sep, got, wBF)
		}
		if got := str.AfterFirst(s, sep); got != wAF {
			t.Fatalf("AfterFirst(%q, %q) = %q, want %q", s, sep, got, wAF)
		}
		if got := str.BeforeLast(s, sep); got != wBL {
			t.Fatalf("BeforeLast(%q, %q) = %q, want %q", s, sep, got, wBL)
		}
		if got := str.AfterLast(s, sep); got != wAL {
			t.Fatalf("AfterLast(%q, %q) = %q, want %q", s, sep, got, wAL)
		}
		if sep != "" {
			// reference split: scan left to right, non-overlapping
			var want []string
			if s != "" {
				rest := s
				for {
					i := findFirst(rest, sep)
					if i < 0 {
						want = append(want, rest)
						break
					}
					want = append(want, rest[:i])
					rest = rest[i+len(sep):]
				}
			}
			got := str.Split(s, sep)
			if fmt.Sprintf("%q", got) != fmt.Sprintf("%q", want) {
				t.Fatalf("Split(%q, %q) = %q, want %q", s, sep, got, want)
			}
			// Join with a plain separator is the inverse; with a bracket format it wraps
			if sep[0] != '(' && sep[0] != '[' && sep[0] != '{' {
				if j := str.Join(sep, got); j != s {
					t.Fatalf("Join(%q, Split(%q)) = %q", sep, s, j)
				}
			}
			wrapped := "(" + sep + ")"
			wj := "("
			for i, p := range got {
				if i > 0 {
					wj += sep
				}
				wj += p
			}
			wj += ")"
			if j := str.Join(wrapped, got); j != wj {
				t.Fatalf("Join(%q, %q) = %q, want %q", wrapped, got, j, wj)
			}
			rec.LabelIf(len(want) > 1, "split_several_parts")
		}
		if len(sep) == 1 {
			wb, wa := s, ""
			if i1 >= 0 {
				wb, wa = s[:i1], s[i1+1:]
			}
			if b, a := str.Cut(s, sep[0]); b != wb || a != wa {
				t.Fatalf("Cut(%q, %q) = %q, %q", s, sep, b, a)
			}
		}
		// Subi / Subn with indexes that may exceed the string
		i := r.n(len(s) + 3)
		j := i + r.n(len(s)+3)
		wSub := ""
		if i < len(s) {
			wSub = s[i:min(j, len(s))]
		}
		if got := str.Subi(s, i, j); got != wSub {
			t.Fatalf("Subi(%q, %d, %d) = %q, want %q", s, i, j, got, wSub)
		}
		if got := str.Subn(s, i, j-i); got != wSub {
			t.Fatalf("Subn(%q, %d, %d) = %q, want %q", s, i, j-i, got, wSub)
		}
		// Opt
		wOpt := ""
		anyEmpty := false
		for _, p := range parts {
			anyEmpty = anyEmpty || p == ""
			wOpt += p
		}
		if anyEmpty {
			wOpt = ""
		}
		if got := str.Opt(parts...); got != wOpt {
			t.Fatalf("Opt(%q) = %q, want %q", parts, got, wOpt)
		}
		rec.Case(i1 >= 0 && sep != "", "split|"+s+"|"+sep)
		rec.LabelIf(i1 >= 0 && i1 != i2, "sep_occurs_more_than_once")
		rec.LabelIf(i1 < 0, "sep_absent")
		rec.LabelIf(sep == "", "sep_empty")
		rec.LabelIf(j > len(s), "sub_index_beyond_end")
		if i1 >= 0 && i1 != i2 && rec.WantSample("split") {
			rec.Sample("split", map[string]string{"s": s, "sep": sep})
		}
	})

	// ---- Find1of / FindLast1of / MakeSet
	rt.Check(t, rec, "find1of", 2500, 25000, func(t *rapid.T) {
		sp := genSetSpec(t, true, false, 4)
		chars := sp.render()
		F := sp.expand()
		s := genSrc(t, F, 16)
		in := func(c byte) bool { return (bytes.IndexByte(F, c) >= 0) != sp.neg }
		wf, wl := -1, -1
		if chars != "" {
			for i := 0; i < len(s); i++ {
				if in(s[i]) {
					if wf < 0 {
						wf = i
					}
					wl = i
				}
			}
		}
		if got := str.Find1of(s, chars); got != wf {
			t.Fatalf("Find1of(%q, %q) = %d, want %d", s, chars, got, wf)
		}
		if got := str.FindLast1of(s, chars); got != wl {
			t.Fatalf("FindLast1of(%q, %q) = %d, want %d", s, chars, got, wl)
		}
		if chars != "" {
			set := str.MakeSet(chars)
			for c := 0; c < 256; c++ {
				if set.Contains(byte(c)) != in(byte(c)) {
					t.Fatalf("MakeSet(%q).Contains(%q) = %v", chars, byte(c), set.Contains(byte(c)))
				}
			}
		}
		rec.Case(wf >= 0 && wf != wl, "find1of|"+s+"|"+chars)
		rec.LabelIf(sp.neg, "find1of_negated")
		rec.LabelIf(wf < 0, "find1of_not_found")
		hasRange := false
		for _, e := range sp.elems {
			hasRange = hasRange || e.isRange
		}
		rec.LabelIf(hasRange, "find1of_with_range")
	})

	// ---- ascii: every byte value
	rt.Check(t, rec, "ascii", 20, 200, func(t *rapid.T) {
		radix := pick(t, []int{2, 8, 10, 16}, "radix")
		for ci := 0; ci < 256; ci++ {
			c := byte(ci)
			lower, upper := 'a' <= c && c <= 'z', 'A' <= c && c <= 'Z'
			digit := '0' <= c && c <= '9'
			hex := digit || 'a' <= c && c <= 'f' || 'A' <= c && c <= 'F'
			bad := func(name string, got, want any) {
				t.Fatalf("ascii.%s(%q) = %v, want %v", name, c, got, want)
			}
			if ascii.IsLower(c) != lower {
				bad("IsLower", ascii.IsLower(c), lower)
			}
			if ascii.IsUpper(c) != upper {
				bad("IsUpper", ascii.IsUpper(c), upper)
			}
			if ascii.IsLetter(c) != (lower || upper) {
				bad("IsLetter", ascii.IsLetter(c), lower || upper)
			}
			if ascii.IsDigit(c) != digit {
				bad("IsDigit", ascii.IsDigit(c), digit)
			}
			if ascii.IsHexDigit(c) != hex {
				bad("IsHexDigit", ascii.IsHexDigit(c), hex)
			}
			if ascii.ToLower(c) != lowerB(c) {
				bad("ToLower", ascii.ToLower(c), lowerB(c))
			}
			if ascii.ToUpper(c) != upperB(c) {
				bad("ToUpper", ascii.ToUpper(c), upperB(c))
			}
			if c != '\f' {
				sp := c == ' ' || c == '\t' || c == '\r' || c == '\n' || c == '\v'
				if ascii.IsSpace(c) != sp {
					bad("IsSpace", ascii.IsSpace(c), sp)
				}
			}
			want := -1
			if v := strings.IndexByte("0123456789abcdef", lowerB(c)); v >= 0 && v < radix {
				want = v
			}
			if got := ascii.Digit(c, radix); got != want {
				t.Fatalf("ascii.Digit(%q, %d) = %d, want %d", c, radix, got, want)
			}
		}
		rec.Evals(256)
		rec.Distinct(fmt.Sprint("ascii|", radix))
	})

	// ---- regex.Replacement (string.Replace templates)
	_, repKnown := kf.Known("C38", "replacement-case-mode-reset-by-group")
	rt.Check(t, rec, "replacement", 3000, 30000, func(t *rapid.T) {
		r := newRng(t, "subject")
		n := 1 + r.n(12)
		sb := make([]byte, n)
		for i := range sb {
			sb[i] = "abcXYZ 19-é"[r.n(10)]
		}
		s := string(sb)
		var cap regex.Captures
		for i := range cap {
			cap[i] = -1
		}
		m0 := r.n(n + 1)
		m1 := m0 + r.n(n-m0+1)
		cap[0], cap[1] = int32(m0), int32(m1)
		ng := r.n(4)
		for g := 1; g <= ng; g++ {
			if r.n(5) == 0 {
				continue // group did not participate
			}
			a := m0 + r.n(m1-m0+1)
			b := a + r.n(m1-a+1)
			cap[2*g], cap[2*g+1] = int32(a), int32(b)
		}
		// template
		var toks []repTok
		mode := byte('E')
		k := uni(t, 7, "ntoks")
		charTok := func() repTok {
			switch uni(t, 4, "chartok") {
			case 0:
				return repTok{kind: '&'}
			case 1:
				return repTok{kind: 'g', c: byte(uni(t, 5, "group"))}
			}
			return repTok{kind: 'c', c: "abzAZ -1é"[uni(t, 9, "c")]}
		}
		for i := 0; i < k; i++ {
			switch w := uni(t, 12, "tok"); {
			case w < 6:
				toks = append(toks, charTok())
			case w < 7:
				toks = append(toks, repTok{kind: '\\'})
			case w < 9:
				mode = "ULE"[uni(t, 3, "mode")]
				toks = append(toks, repTok{kind: mode})
			default:
				if mode == 'E' {
					toks = append(toks, repTok{kind: "ul"[uni(t, 2, "one")]}, charTok())
				} else {
					toks = append(toks, charTok())
				}
			}
		}
		rep := renderRep(toks)
		lit := uni(t, 12, "literal") == 0
		var want string
		if lit {
			rep = `\=` + rep
			want = rep[2:]
		} else {
			want = refReplacement(s, toks, &cap, false)
			if repKnown {
				if alt := refReplacement(s, toks, &cap, true); alt != want {
					e, _ := kf.Known("C38", "replacement-case-mode-reset-by-group")
					rec.Excluded("replacement-case-mode-reset-by-group")
					rec.Known(e.What)
					want = alt
					lit = true // not counted below
				}
			}
		}
		got := regex.Replacement(s, rep, &cap)
		if got != want {
			t.Fatalf("Replacement(%q, %q, %v) = %q, want %q", s, rep, cap[:10], got, want)
		}
		if lr, ok := regex.LiteralRep(rep); ok != (strings.HasPrefix(rep, `\=`) || !strings.ContainsAny(rep, `&\`)) || (ok && lr != want) {
			t.Fatalf("LiteralRep(%q) = %q, %v", rep, lr, ok)
		}
		special := strings.ContainsAny(rep, `&\`)
		if !lit || strings.HasPrefix(rep, `\=`) {
			rec.Case(special, "rep|"+s+"|"+rep+"|"+fmt.Sprint(cap[:10]))
		}
		for _, k := range toks {
			switch k.kind {
			case 'g':
				rec.Label("rep_group_reference")
			case '&':
				rec.Label("rep_ampersand")
			case 'U', 'L':
				rec.Label("rep_case_mode")
			case 'u', 'l':
				rec.Label("rep_one_shot_case")
			}
		}
		rec.LabelIf(strings.HasPrefix(rep, `\=`), "rep_literal_prefix")
		if special && rec.WantSample("replacement") {
			rec.Sample("replacement", map[string]any{"s": s, "rep": rep, "cap": cap[:8], "result": want})
		}
	})
}
