package utilx

import (
	"fmt"
	"runtime"
	"sort"
	"strconv"
	"testing"

	"github.com/apmckinlay/gsuneido/util/bloom"
	"github.com/apmckinlay/gsuneido/util/cache"
	"github.com/apmckinlay/gsuneido/util/lrucache"
	"github.com/apmckinlay/gsuneido/util/ordset"
	"github.com/apmckinlay/gsuneido/util/ranges"
	"github.com/apmckinlay/gsuneido/util/roaring"
	"github.com/apmckinlay/gsuneido/util/shmap"
	"github.com/apmckinlay/gsuneido/util/sortlist"
	"pgregory.net/rapid"
	"verifharness/internal/ev"
	"verifharness/internal/kf"
	"verifharness/internal/rt"
)

// documented capacity of ranges.Ranges and ordset.Set: 128 leaves x 128 slots
const treeCapacity = 128 * 128

func key5(i int) string { return fmt.Sprintf("%05d", i) }

// Keys are key index -1 (the empty string, the zero value of the slot type)
// and 0..d-1 (five-digit strings). The model works on a grid of points:
// key k is point 2k+2, any string strictly between key k and key k+1 is point
// 2k+3 (probed as key+"x", or "0" between "" and "00000").
func keyStr(k int) string {
	if k < 0 {
		return ""
	}
	return key5(k)
}

func probe(k int, off bool) (string, int) {
	if off {
		if k < 0 {
			return "0", 1
		}
		return key5(k) + "x", 2*k + 3
	}
	return keyStr(k), 2*k + 2
}

// intervalModel: set of closed string intervals over the keys -1..d-1.
// covered[p] for grid points; two inserted ranges merge iff they share a
// point, exactly the overlap rule for inclusive string ranges.
type intervalModel struct {
	covered []bool
	runs    int
}

func newIntervalModel(d int) *intervalModel { return &intervalModel{covered: make([]bool, 2*d+3)} }

func (m *intervalModel) countRuns(lo, hi int) int { // run starts in [lo,hi]; a run entering at lo counts
	n := 0
	for p := lo; p <= hi; p++ {
		if m.covered[p] && (p == lo || !m.covered[p-1]) {
			n++
		}
	}
	return n
}

// insert [key a, key b]; returns the change in the number of disjoint ranges.
func (m *intervalModel) insert(a, b int) int {
	lo, hi := 2*a+2, 2*b+2
	l2, h2 := max(lo-1, 0), min(hi+1, len(m.covered)-1)
	before := m.countRuns(l2, h2)
	for p := lo; p <= hi; p++ {
		m.covered[p] = true
	}
	after := m.countRuns(l2, h2)
	m.runs += after - before
	return after - before
}

func catch(f func()) (p any) {
	defer func() { p = recover() }()
	f()
	return nil
}

func TestC39(t *testing.T) {
	rec := ev.New("C39", "rapid-generated operation scripts replayed against abstract models, every result compared: ranges (Insert/Contains over the empty string and 5-digit keys, dense small domains for overlap/merge and 16K+ disjoint inserts ascending/descending/random to cross the capacity), ordset (Insert/Contains/AnyInRange, bounds on and off existing keys, empty-string key, up to and beyond 16 384 keys), sortlist (0..5 blocks of 4096, sorted/unsorted builders, re-Sort, Iter/Next/Prev/Seek), bloom, roaring (array->bitmap conversion at 4096, bases up to 2^32-1), shmap (colliding hash functions, tombstones, growth), lrucache, cache. Non-trivial: script reaches a merge / tree split / block boundary / conversion / collision / eviction; distinct = script fingerprint.")
	rec.Assumptions = []string{
		"ranges.Insert returns the change in the number of disjoint ranges (0 when contained), or Full leaving the set unchanged; db19/check.go adds it to a read count",
		"ordset.Insert returns false only when full and then leaves the set unchanged; full is legitimate only with >= 4096 keys (128 leaves, each at least a quarter full) and mandatory beyond 16 384",
		"sortlist: the result is a sorted permutation of the input (stability is not documented and not required); values are non-zero",
		"lrucache is used as Get then Put on a miss (GetPut); an entry touched within the last capacity/2 operations must still be present; exact eviction order is not modelled",
		"cache.Cache: a repeated Get of the most recent key must not call the getter; at most 8 keys are served from the cache at any time",
		"bloom: m >= 1 bits",
	}
	defer rec.Write()

	// ------------------------------------------------------------ ranges
	rt.Check(t, rec, "ranges_small", 1500, 15000, func(t *rapid.T) {
		d := pick(t, []int{12, 30, 80}, "domain")
		m := newIntervalModel(d)
		rs := &ranges.Ranges{}
		nops := 5 + uni(t, 60, "nops")
		merges, contained, emptyKey := 0, 0, false
		fp := fmt.Sprint("rs", d)
		for i := 0; i < nops; i++ {
			if uni(t, 3, "op") < 2 {
				a := uni(t, d+1, "from") - 1
				w := uni(t, 4, "width")
				if uni(t, 8, "wide") == 0 {
					w = uni(t, d, "width")
				}
				b := min(a+w, d-1)
				want := m.insert(a, b)
				got := rs.Insert(keyStr(a), keyStr(b))
				if got != want {
					t.Fatalf("step %d: Insert(%q,%q) = %d, want %d (model change in number of ranges); set: %v", i, keyStr(a), keyStr(b), got, want, rs)
				}
				if want < 0 {
					merges++
				}
				if want == 0 {
					contained++
				}
				emptyKey = emptyKey || a < 0
				fp += fmt.Sprint("i", a, "-", b)
			} else {
				s, p := probe(uni(t, d+1, "val")-1, uni(t, 3, "off") == 0)
				if got := rs.Contains(s); got != m.covered[p] {
					t.Fatalf("step %d: Contains(%q) = %v, want %v; set: %v", i, s, got, m.covered[p], rs)
				}
			}
		}
		for k := -1; k < d; k++ {
			for _, off := range []bool{false, true} {
				s, p := probe(k, off)
				if rs.Contains(s) != m.covered[p] {
					t.Fatalf("final: Contains(%q) = %v, want %v; set: %v", s, !m.covered[p], m.covered[p], rs)
				}
			}
		}
		if rs.Contains("99999") {
			t.Fatalf("Contains outside the domain is true; set: %v", rs)
		}
		rec.Case(merges > 0, fp)
		rec.LabelIf(merges > 0, "ranges_merge_of_several")
		rec.LabelIf(contained > 0, "ranges_insert_contained_or_merged_one")
		rec.LabelIf(emptyKey, "ranges_with_empty_string_bound")
	})

	rt.Check(t, rec, "ranges_capacity", 16, 160, func(t *rapid.T) {
		const d = 60000
		m := newIntervalModel(d)
		rs := &ranges.Ranges{}
		order := uni(t, 4, "order") // 0 ascending 1 descending 2 random 3 random then bridging merges
		r := newRng(t, "keys")
		nins := 15000 + r.n(6000)
		emptyAt := -1
		if r.n(2) == 0 {
			emptyAt = r.n(nins)
		}
		fulls, firstFullAt, count := 0, -1, 0
		for i := 0; i < nins; i++ {
			var a int
			switch order {
			case 0:
				a = 3 * i
			case 1:
				a = 3 * (nins - i)
			default:
				a = r.n(d - 2)
			}
			if a > d-3 {
				a = d - 3
			}
			b := a + r.n(2)
			if order == 3 && i > 3000 && r.n(6) == 0 {
				b = min(a+r.n(40), d-1) // bridge several ranges
			}
			if i == emptyAt {
				a, b = -1, -1+r.n(2)
			}
			save := append([]bool(nil), m.covered[max(2*a+1, 0):2*b+4]...)
			runsBefore := m.runs
			want := m.insert(a, b)
			got := rs.Insert(keyStr(a), keyStr(b))
			if got == ranges.Full {
				copy(m.covered[max(2*a+1, 0):], save) // refused: nothing changes
				m.runs = runsBefore
				fulls++
				if firstFullAt < 0 {
					firstFullAt = count
				}
				if count < 128 {
					t.Fatalf("Insert reports Full with only %d ranges", count)
				}
			} else {
				if got != want {
					t.Fatalf("insert #%d: Insert(%q,%q) = %d, want %d with %d ranges in the set", i, keyStr(a), keyStr(b), got, want, count)
				}
				count += got
				if count > treeCapacity {
					t.Fatalf("%d ranges held, capacity is %d", count, treeCapacity)
				}
			}
			if i%97 == 0 || got == ranges.Full || i == emptyAt {
				for k := 0; k < 6; k++ {
					s, p := probe(r.n(d)-1, r.n(3) == 0)
					if rs.Contains(s) != m.covered[p] {
						t.Fatalf("after insert #%d (%d ranges, Full seen %d times): Contains(%q) = %v, want %v", i, count, fulls, s, !m.covered[p], m.covered[p])
					}
				}
				for _, x := range []int{a, b, -1} {
					if p := 2*x + 2; rs.Contains(keyStr(x)) != m.covered[p] {
						t.Fatalf("after insert #%d result %d: Contains(%q) = %v, want %v", i, got, keyStr(x), !m.covered[p], m.covered[p])
					}
				}
			}
		}
		for k := 0; k < 4000; k++ {
			s, p := probe(r.n(d)-1, r.n(3) == 0)
			if rs.Contains(s) != m.covered[p] {
				t.Fatalf("final (%d ranges, Full seen %d times): Contains(%q) = %v, want %v", count, fulls, s, !m.covered[p], m.covered[p])
			}
		}
		if count != m.runs {
			t.Fatalf("sum of Insert results %d != number of ranges in the model %d", count, m.runs)
		}
		rec.Case(true, fmt.Sprint("rc", order, nins, r.s))
		rec.LabelIf(fulls > 0, "ranges_run_reached_full")
		rec.LabelIf(count > 128, "ranges_run_with_tree_split")
		rec.LabelIf(emptyAt >= 0, "ranges_capacity_run_with_empty_string")
		rec.Label(fmt.Sprintf("ranges_capacity_order_%d", order))
		if fulls > 0 && rec.WantSample("ranges_full") {
			rec.Sample("ranges_full", map[string]int{"order": order, "inserts": nins, "ranges_when_first_full": firstFullAt, "full_results": fulls, "final_ranges": count})
		}
	})

	// ------------------------------------------------------------ ordset
	anyIn := func(present []bool, pf, pt int) bool { // grid points, inclusive
		for p := max(pf, 0); p <= pt && p < len(present); p++ {
			if present[p] {
				return true
			}
		}
		return false
	}
	rt.Check(t, rec, "ordset_small", 1500, 15000, func(t *rapid.T) {
		d := pick(t, []int{10, 40, 300}, "domain")
		present := make([]bool, 2*d+3) // only key points (even) are ever set
		var set ordset.Set
		nops := 5 + uni(t, 80, "nops")
		if d == 300 {
			nops += 300 // enough to split the first leaf (128)
		}
		n, exactHit, emptyKey := 0, 0, false
		fp := fmt.Sprint("os", d)
		for i := 0; i < nops; i++ {
			switch op := uni(t, 10, "op"); {
			case op < 4 || (d == 300 && op < 7):
				k := uni(t, d+1, "key") - 1
				if uni(t, 12, "empty") == 0 {
					k = -1
				}
				if !set.Insert(keyStr(k)) {
					t.Fatalf("Insert(%q) = false with %d keys", keyStr(k), n)
				}
				if !present[2*k+2] {
					present[2*k+2] = true
					n++
				}
				if !set.Contains(keyStr(k)) {
					t.Fatalf("Contains(%q) = false right after Insert (%d keys); set %v", keyStr(k), n, &set)
				}
				emptyKey = emptyKey || k < 0
				fp += fmt.Sprint("i", k)
			case op < 6:
				s, p := probe(uni(t, d+1, "key")-1, uni(t, 4, "off") == 0)
				if got := set.Contains(s); got != present[p] {
					t.Fatalf("Contains(%q) = %v, want %v; set %v", s, got, present[p], &set)
				}
			default:
				a := uni(t, d+1, "from") - 1
				w := uni(t, 4, "width")
				if uni(t, 6, "wide") == 0 {
					w = uni(t, d, "width")
				}
				b := min(a+w, d-1)
				fs, pf := probe(a, uni(t, 4, "offfrom") == 0)
				ts, pt := probe(b, uni(t, 4, "offto") == 0)
				if uni(t, 20, "reversed") == 0 {
					fs, pf, ts, pt = ts, pt, fs, pf
				}
				want := pf <= pt && anyIn(present, pf, pt)
				if got := set.AnyInRange(fs, ts); got != want {
					t.Fatalf("AnyInRange(%q, %q) = %v, want %v; set %v", fs, ts, got, want, &set)
				}
				// the only key in range is the upper bound itself
				if want && pt%2 == 0 && present[pt] && !anyIn(present, pf, pt-1) {
					exactHit++
				}
				fp += fmt.Sprint("q", pf, "-", pt)
			}
		}
		if set.Empty() != (n == 0) {
			t.Fatalf("Empty() = %v with %d keys", set.Empty(), n)
		}
		for k := -1; k < d; k++ {
			if set.Contains(keyStr(k)) != present[2*k+2] {
				t.Fatalf("final: Contains(%q) = %v, want %v; set %v", keyStr(k), !present[2*k+2], present[2*k+2], &set)
			}
		}
		rec.Case(exactHit > 0 || n > 128, fp)
		rec.LabelIf(exactHit > 0, "ordset_range_hit_only_at_upper_bound")
		rec.LabelIf(n > 128, "ordset_small_with_tree_split")
		rec.LabelIf(emptyKey, "ordset_with_empty_string_key")
	})

	rt.Check(t, rec, "ordset_capacity", 16, 160, func(t *rapid.T) {
		const d = 40000
		present := make([]bool, 2*d+3)
		var set ordset.Set
		order := uni(t, 4, "order") // ascending, descending, random, random with repeats
		r := newRng(t, "keys")
		nins := 17000 + r.n(8000)
		emptyAt := -1
		if r.n(2) == 0 {
			emptyAt = r.n(nins)
		}
		n, falses, firstFalseAt := 0, 0, -1
		for i := 0; i < nins; i++ {
			var k int
			switch order {
			case 0:
				k = i
			case 1:
				k = nins - i
			case 2:
				k = r.n(d)
			default:
				k = r.n(d)
				if r.n(4) == 0 {
					k = r.n(200) * 150
				}
			}
			if k >= d {
				k = d - 1
			}
			if i == emptyAt {
				k = -1
			}
			ok := set.Insert(keyStr(k))
			if ok {
				if !present[2*k+2] {
					present[2*k+2] = true
					n++
				}
				if n > treeCapacity {
					t.Fatalf("Insert accepted key #%d, capacity is %d", n, treeCapacity)
				}
			} else {
				falses++
				if firstFalseAt < 0 {
					firstFalseAt = n
				}
				if n < 4096 {
					t.Fatalf("Insert(%q) = false with only %d keys", keyStr(k), n)
				}
			}
			if i%61 == 0 || !ok || i == emptyAt {
				if got := set.Contains(keyStr(k)); got != present[2*k+2] {
					t.Fatalf("after Insert(%q) = %v (%d keys): Contains = %v, want %v", keyStr(k), ok, n, got, present[2*k+2])
				}
				for q := 0; q < 4; q++ {
					a := r.n(d) - 1
					b := min(a+r.n(30), d-1)
					fs, pf := probe(a, r.n(4) == 0)
					ts, pt := probe(b, r.n(4) == 0)
					want := pf <= pt && anyIn(present, pf, pt)
					if got := set.AnyInRange(fs, ts); got != want {
						t.Fatalf("%d keys, %d refused inserts: AnyInRange(%q, %q) = %v, want %v", n, falses, fs, ts, got, want)
					}
					s, p := probe(r.n(d)-1, r.n(4) == 0)
					if got := set.Contains(s); got != present[p] {
						t.Fatalf("%d keys, %d refused inserts: Contains(%q) = %v, want %v", n, falses, s, got, present[p])
					}
				}
			}
		}
		for q := 0; q < 3000; q++ {
			k := r.n(d+1) - 1
			if got := set.Contains(keyStr(k)); got != present[2*k+2] {
				t.Fatalf("final %d keys: Contains(%q) = %v, want %v", n, keyStr(k), got, present[2*k+2])
			}
		}
		if got := set.Contains(""); got != present[0] {
			t.Fatalf("final %d keys: Contains(\"\") = %v, want %v", n, got, present[0])
		}
		rec.Case(true, fmt.Sprint("oc", order, nins, r.s))
		rec.LabelIf(falses > 0, "ordset_run_reached_full")
		rec.LabelIf(emptyAt >= 0, "ordset_capacity_run_with_empty_string")
		rec.Label(fmt.Sprintf("ordset_capacity_order_%d", order))
		if falses > 0 && rec.WantSample("ordset_full") {
			rec.Sample("ordset_full", map[string]int{"order": order, "inserts": nins, "keys_when_first_refused": firstFalseAt, "refused": falses, "final_keys": n})
		}
	})

	// ------------------------------------------------------------ sortlist
	rt.Check(t, rec, "sortlist", 250, 2500, func(t *rapid.T) {
		sizes := []int{0, 1, 2, 100, 4095, 4096, 4097, 8191, 8192, 8193, 10000, 12288, 12289, 16384, 20481}
		n := pick(t, sizes, "n")
		if uni(t, 3, "smallish") == 0 {
			n = uni(t, 300, "n")
		}
		shape := uni(t, 6, "shape")
		sorting := uni(t, 3, "builder") != 0
		r := newRng(t, "vals")
		vals := make([]uint64, n)
		for i := range vals {
			switch shape {
			case 0:
				vals[i] = 1 + r.next()>>1
			case 1:
				vals[i] = uint64(i + 1) // ascending: merges find nothing to do
			case 2:
				vals[i] = uint64(n - i)
			case 3:
				vals[i] = 1 + uint64(r.n(50)) // many duplicates
			case 4: // ascending blocks in descending block order
				vals[i] = uint64((n/4096+1-i/4096)*10000 + i%4096 + 1)
			default:
				vals[i] = 1 + uint64(r.n(3*n+1))
			}
		}
		isZero := func(x uint64) bool { return x == 0 }
		less := func(x, y uint64) bool { return x < y }
		// second order: by bit-reversed low 16 bits, then value (total)
		rev := func(x uint64) uint64 { return mix64(x) }
		less2 := func(x, y uint64) bool { return rev(x) < rev(y) }
		var b *sortlist.Builder[uint64]
		if sorting {
			b = sortlist.NewSorting(isZero, less)
		} else {
			b = sortlist.NewUnsorted(isZero)
		}
		for _, v := range vals {
			b.Add(v)
		}
		list := b.Finish()
		want := append([]uint64(nil), vals...)
		if sorting {
			sort.Slice(want, func(i, j int) bool { return want[i] < want[j] })
		}
		collect := func() []uint64 {
			var got []uint64
			it := b.Iter()
			for v := it(); v != 0; v = it() {
				got = append(got, v)
				if len(got) > n+5 {
					break
				}
			}
			return got
		}
		cmp := func(what string, got, want []uint64) {
			if len(got) != len(want) {
				t.Fatalf("%s: n=%d shape=%d sorting=%v: %d values, want %d", what, n, shape, sorting, len(got), len(want))
			}
			for i := range got {
				if got[i] != want[i] {
					t.Fatalf("%s: n=%d shape=%d sorting=%v: [%d] = %d, want %d", what, n, shape, sorting, i, got[i], want[i])
				}
			}
		}
		cmp("Builder.Iter after Finish", collect(), want)
		if sorting {
			// List.Iter: Next / Prev / Seek
			it := list.Iter(func(x uint64, key []string) bool {
				k, _ := strconv.ParseUint(key[0], 10, 64)
				return x < k
			})
			var fw []uint64
			for it.Next(); !it.Eof(); it.Next() {
				fw = append(fw, it.Cur())
				if len(fw) > n+5 {
					break
				}
			}
			cmp("List.Iter Next", fw, want)
			it.Rewind()
			var bw []uint64
			for it.Prev(); !it.Eof(); it.Prev() {
				bw = append(bw, it.Cur())
				if len(bw) > n+5 {
					break
				}
			}
			for i, j := 0, len(bw)-1; i < j; i, j = i+1, j-1 {
				bw[i], bw[j] = bw[j], bw[i]
			}
			cmp("List.Iter Prev", bw, want)
			for q := 0; q < 12; q++ {
				var key uint64
				switch {
				case n > 0 && q%3 == 0:
					key = want[r.n(n)]
				case n > 0 && q%3 == 1:
					key = want[r.n(n)] + 1
				default:
					key = r.next() >> uint(r.n(60))
				}
				pos := sort.Search(n, func(i int) bool { return want[i] >= key })
				it.Seek([]string{strconv.FormatUint(key, 10)})
				if pos == n {
					if !it.Eof() {
						t.Fatalf("Seek(%d) n=%d: not Eof, want Eof", key, n)
					}
				} else {
					if it.Eof() || it.Cur() != want[pos] {
						t.Fatalf("Seek(%d) n=%d shape=%d: wrong position, want [%d]=%d", key, n, shape, pos, want[pos])
					}
					it.Next()
					if pos+1 < n && (it.Eof() || it.Cur() != want[pos+1]) {
						t.Fatalf("Seek(%d) then Next: want [%d]=%d", key, pos+1, want[pos+1])
					}
				}
			}
		}
		// re-sort with another order (load / index building does this per index)
		resorts := uni(t, 3, "resorts")
		for k := 0; k < resorts; k++ {
			l := less2
			if k%2 == 1 {
				l = less
			}
			b.Sort(l)
			w2 := append([]uint64(nil), vals...)
			sort.Slice(w2, func(i, j int) bool { return l(w2[i], w2[j]) })
			// rev is injective, so equal keys are equal values: the order is total
			cmp(fmt.Sprintf("Builder.Iter after Sort #%d", k+1), collect(), w2)
		}
		rec.Case(n > 4096, fmt.Sprint("sl", n, shape, sorting, resorts, r.s))
		rec.Label(fmt.Sprintf("sortlist_blocks_%d", (n+4095)/4096))
		rec.LabelIf(n > 0 && n%4096 == 0, "sortlist_exact_block_multiple")
		rec.LabelIf(!sorting, "sortlist_unsorted_builder")
		rec.LabelIf(resorts > 0, "sortlist_resorted")
	})

	// ------------------------------------------------------------ bloom
	var fpTests, fpHits int
	rt.Check(t, rec, "bloom", 300, 3000, func(t *rapid.T) {
		var bf *bloom.Bloom
		var m, k int
		if uni(t, 2, "calc") == 0 {
			m, k = bloom.Calc(1+uni(t, 400, "n"), pick(t, []float64{0.5, 0.1, 0.01, 0.0001}, "p"))
			if m < 1 || k < 1 {
				t.Fatalf("Calc gives m=%d k=%d", m, k)
			}
		} else {
			m, k = 1+uni(t, 3000, "m"), 1+uni(t, 12, "k")
		}
		bf = bloom.New(m, k)
		if bf.Size()*8 < m {
			t.Fatalf("New(%d,%d).Size() = %d bytes", m, k, bf.Size())
		}
		r := newRng(t, "hashes")
		n := r.n(300)
		added := map[uint64]bool{}
		hs := make([]uint64, n)
		for i := range hs {
			switch r.n(5) {
			case 0:
				hs[i] = uint64(r.n(100)) // tiny
			case 1:
				hs[i] = r.next() | 0xffffffff00000000 // h2 = 2^32-1
			case 2:
				hs[i] = r.next() << 32 // h1 = 0
			default:
				hs[i] = r.next()
			}
			bf.Add(hs[i])
			added[hs[i]] = true
			if !bf.Test(hs[i]) {
				t.Fatalf("m=%d k=%d: Test(%#x) false right after Add", m, k, hs[i])
			}
		}
		for _, h := range hs {
			if !bf.Test(h) {
				t.Fatalf("m=%d k=%d after %d adds: Test(%#x) = false (false negative)", m, k, n, h)
			}
		}
		for i := 0; i < 50; i++ {
			h := r.next()
			if !added[h] {
				fpTests++
				if bf.Test(h) {
					fpHits++
				}
			}
		}
		rec.Case(n > 0, fmt.Sprint("bl", m, k, n, r.s))
		rec.LabelIf(n > m/2, "bloom_heavily_loaded")
	})
	rec.Set("bloom_false_positive_probes", fpTests)
	rec.Set("bloom_false_positives", fpHits)

	// ------------------------------------------------------------ roaring
	rt.Check(t, rec, "roaring", 300, 3000, func(t *rapid.T) {
		var bm roaring.Bitmap
		model := map[uint64]bool{}
		bases := []uint64{0, 1, 2, 0xffff, 0x10000, 0x7fffffff, 0xfffffffe, 0xffffffff}
		nb := 1 + uni(t, 3, "nbases")
		var use []uint64
		for i := 0; i < nb; i++ {
			use = append(use, pick(t, bases, "base"))
		}
		big := uni(t, 4, "big") == 0
		if big {
			use = use[:1] // one container, filled beyond the 4096-entry array limit
			if e, known := kf.Known("C39", "roaring-recycled-block-not-cleared"); known {
				// known class: array->bitmap conversion that receives a recycled block
				// from the package's sync.Pool. Two GC cycles empty the pool, so the
				// conversion below starts from a fresh (zeroed) block.
				runtime.GC()
				runtime.GC()
				rec.Excluded("roaring-recycled-block-not-cleared")
				rec.Known(e.What)
			}
		}
		r := newRng(t, "vals")
		nops := 20 + r.n(300)
		if big {
			nops = 4000 + r.n(6000)
		}
		pattern := uni(t, 3, "pattern") // ascending, descending, random
		converted := false
		perBase := map[uint64]int{}
		for i := 0; i < nops; i++ {
			base := use[r.n(len(use))]
			var low uint64
			switch pattern {
			case 0:
				low = uint64(i*7) & 0xffff
			case 1:
				low = uint64(0xffff-i*5) & 0xffff
			default:
				low = uint64(r.n(0x10000))
				if !big {
					low = uint64(r.n(64)) * 1021 & 0xffff
				}
			}
			x := base<<16 | low
			if r.n(4) == 0 && len(model) > 0 { // query
				y := x ^ uint64(r.n(3))
				if got := bm.Has(y); got != model[y] {
					t.Fatalf("Has(%#x) = %v, want %v (%d values)", y, got, model[y], len(model))
				}
				continue
			}
			bm.Add(x)
			if !model[x] {
				model[x] = true
				perBase[base]++
				if perBase[base] > 4096 {
					converted = true
				}
			}
			if !bm.Has(x) {
				t.Fatalf("Has(%#x) false right after Add (%d values in its container)", x, perBase[base])
			}
		}
		// everything added is present, neighbours agree with the model
		keys := make([]uint64, 0, len(model))
		for x := range model {
			keys = append(keys, x)
		}
		sort.Slice(keys, func(i, j int) bool { return keys[i] < keys[j] })
		for _, x := range keys {
			if !bm.Has(x) {
				t.Fatalf("Has(%#x) = false, was added (%d values)", x, len(model))
			}
			for _, y := range []uint64{x + 1, x - 1, x ^ 0x10000} {
				if y < 1<<48 && bm.Has(y) != model[y] {
					t.Fatalf("Has(%#x) = %v, want %v", y, !model[y], model[y])
				}
			}
		}
		// out of range values are refused loudly and change nothing
		for _, x := range []uint64{1 << 48, 1<<48 + 5, ^uint64(0)} {
			for _, f := range []func(){func() { bm.Add(x) }, func() { bm.Has(x) }} {
				p := catch(f)
				if p == nil {
					t.Fatalf("value %#x >= 2^48 accepted", x)
				}
				if _, isRT := p.(runtime.Error); isRT {
					t.Fatalf("value %#x: runtime error %v instead of a refusal", x, p)
				}
			}
		}
		rec.Case(converted || len(use) > 1, fmt.Sprint("ro", use, nops, pattern, r.s))
		rec.LabelIf(converted, "roaring_array_to_bitmap_conversion")
		rec.LabelIf(len(use) > 1, "roaring_several_containers")
	})

	// ------------------------------------------------------------ shmap
	rt.Check(t, rec, "shmap", 1200, 12000, func(t *rapid.T) {
		hmode := uni(t, 5, "hash")
		hfn := func(k int) uint64 {
			switch hmode {
			case 0:
				return mix64(uint64(k))
			case 1:
				return 7 // everything collides
			case 2:
				return uint64(k)<<7 | 5 // same 7 control bits, different groups
			case 3:
				return uint64(k % 3)
			default:
				return uint64(k) // sequential groups, low bits vary
			}
		}
		m := shmap.NewMapFuncs[int, int](hfn, func(x, y int) bool { return x == y })
		model := map[int]int{}
		d := pick(t, []int{6, 30, 200, 1500}, "domain")
		nops := 10 + uni(t, 150, "nops")
		if d >= 200 {
			nops += 3 * d
		}
		r := newRng(t, "ops")
		dels, grew := 0, false
		check := func(m *shmap.Map[int, int, shmap.Funcs[int]], model map[int]int, what string) {
			if m.Size() != len(model) {
				t.Fatalf("%s: Size() = %d, want %d", what, m.Size(), len(model))
			}
			seen := map[int]bool{}
			it := m.Iter()
			for k, v, ok := it(); ok; k, v, ok = it() {
				if seen[k] {
					t.Fatalf("%s: Iter returns key %d twice", what, k)
				}
				seen[k] = true
				if mv, in := model[k]; !in || mv != v {
					t.Fatalf("%s: Iter returns %d:%d, model has %v (present %v)", what, k, v, mv, in)
				}
				if len(seen) > len(model) {
					break
				}
			}
			if len(seen) != len(model) {
				t.Fatalf("%s: Iter returned %d entries, want %d", what, len(seen), len(model))
			}
		}
		for i := 0; i < nops; i++ {
			k := r.n(d)
			switch op := r.n(20); {
			case op < 8:
				v := r.n(1000)
				m.Put(k, v)
				model[k] = v
			case op < 12:
				v, ok := m.Get(k)
				mv, mok := model[k]
				if ok != mok || v != mv {
					t.Fatalf("hash mode %d step %d: Get(%d) = %d,%v want %d,%v", hmode, i, k, v, ok, mv, mok)
				}
				if m.Has(k) != mok {
					t.Fatalf("Has(%d) = %v", k, !mok)
				}
			case op < 17:
				v, ok := m.Del(k)
				mv, mok := model[k]
				if ok != mok || v != mv {
					t.Fatalf("hash mode %d step %d: Del(%d) = %d,%v want %d,%v", hmode, i, k, v, ok, mv, mok)
				}
				if mok {
					dels++
				}
				delete(model, k)
			case op < 18:
				k2, existed := m.GetInit(k)
				_, mok := model[k]
				if existed != mok || k2 != k {
					t.Fatalf("GetInit(%d) = %d,%v want existed %v", k, k2, existed, mok)
				}
				if !mok {
					model[k] = 0
				}
			case op < 19:
				check(m, model, fmt.Sprintf("hash mode %d step %d", hmode, i))
			default:
				if r.n(6) == 0 {
					m.Clear()
					model = map[int]int{}
				} else { // a copy is independent
					c := m.Copy()
					cm := map[int]int{}
					for k, v := range model {
						cm[k] = v
					}
					c.Put(k, -1)
					cm[k] = -1
					c.Del((k + 1) % d)
					delete(cm, (k+1)%d)
					check(c, cm, "copy")
					check(m, model, "original after modifying the copy")
				}
			}
			if len(model) > 56 {
				grew = true
			}
		}
		check(m, model, "final")
		for k := 0; k < d; k++ {
			v, ok := m.Get(k)
			if mv, mok := model[k]; ok != mok || v != mv {
				t.Fatalf("final hash mode %d: Get(%d) = %d,%v want %d,%v", hmode, k, v, ok, mv, mok)
			}
		}
		rec.Case(hmode > 0 && dels > 0, fmt.Sprint("sh", hmode, d, nops, r.s))
		rec.Label(fmt.Sprintf("shmap_hash_mode_%d", hmode))
		rec.LabelIf(grew, "shmap_grew_beyond_one_resize")
		rec.LabelIf(dels > 0, "shmap_with_deletes")
	})

	// ------------------------------------------------------------ lrucache
	rt.Check(t, rec, "lrucache", 800, 8000, func(t *rapid.T) {
		req := pick(t, []int{1, 6, 7, 13, 20, 27, 28, 55, 56, 111, 200, 223, 300}, "req")
		capy := 223
		for _, s := range []int{6, 13, 27, 55, 111, 223} {
			if req <= s {
				capy = s
				break
			}
		}
		lruKeyMode = uni(t, 3, "hash")
		lc := lrucache.New[lruKey, int](req)
		d := pick(t, []int{capy / 2, capy, capy + 3, 2 * capy, 5 * capy}, "domain")
		if d < 2 {
			d = 2
		}
		r := newRng(t, "ops")
		nops := 20 + r.n(6*capy+50)
		latest := map[lruKey]int{}    // last value stored for the key since the last Reset
		lastTouch := map[lruKey]int{} // op index of the last hit or put
		hits, misses, evicted := 0, 0, false
		puts := 0
		for i := 0; i < nops; i++ {
			k := lruKey(r.n(d))
			if r.n(6) == 0 && i > 0 { // locality
				k = lruKey((int(k) % 4) + 1)
			}
			switch op := r.n(20); {
			case op < 17:
				v, ok := lc.Get(k)
				if ok {
					hits++
					if mv, in := latest[k]; !in || mv != v {
						t.Fatalf("step %d: Get(%d) = %d, the value stored for that key is %d (stored: %v)", i, k, v, mv, in)
					}
					lastTouch[k] = i
				} else {
					misses++
					if lt, in := lastTouch[k]; in && i-lt <= capy/2 {
						t.Fatalf("step %d: Get(%d) misses, key was used %d operations ago, capacity %d", i, k, i-lt, capy)
					}
					if op < 12 { // use as intended: fill on a miss
						val := int(k)*1000 + i
						lc.Put(k, val)
						latest[k] = val
						lastTouch[k] = i
						puts++
						if puts > capy {
							evicted = true
						}
					}
				}
			case op < 19:
				called := false
				val := int(k)*1000 + i
				got := lc.GetPut(k, func(lruKey) int { called = true; return val })
				if called {
					misses++
					if lt, in := lastTouch[k]; in && i-lt <= capy/2 {
						t.Fatalf("step %d: GetPut(%d) misses, key was used %d operations ago, capacity %d", i, k, i-lt, capy)
					}
					if got != val {
						t.Fatalf("GetPut(%d) = %d, want the computed %d", k, got, val)
					}
					latest[k] = val
					puts++
					if puts > capy {
						evicted = true
					}
				} else {
					hits++
					if got != latest[k] {
						t.Fatalf("step %d: GetPut(%d) = %d from the cache, stored value is %d", i, k, got, latest[k])
					}
				}
				lastTouch[k] = i
			default:
				if r.n(3) == 0 {
					lc.Reset()
					latest, lastTouch = map[lruKey]int{}, map[lruKey]int{}
					hits, misses, puts = 0, 0, 0
				}
			}
			if h, ms := lc.Stats(); h != hits || ms != misses {
				t.Fatalf("step %d: Stats() = %d,%d want %d,%d", i, h, ms, hits, misses)
			}
			if i%16 == 0 || i == nops-1 {
				cnt := 0
				seen := map[lruKey]bool{}
				for ek, evv := range lc.Entries() {
					cnt++
					if seen[ek] {
						t.Fatalf("Entries yields key %d twice", ek)
					}
					seen[ek] = true
					if mv, in := latest[ek]; !in || mv != evv {
						t.Fatalf("Entries yields %d:%d, stored value for the key is %d (stored %v)", ek, evv, mv, in)
					}
				}
				if cnt > capy {
					t.Fatalf("%d entries in a cache of capacity %d (requested %d)", cnt, capy, req)
				}
				if cnt < min(puts, capy) {
					t.Fatalf("%d entries after %d insertions, capacity %d", cnt, puts, capy)
				}
			}
		}
		rec.Case(evicted, fmt.Sprint("lru", req, d, lruKeyMode, nops, r.s))
		rec.LabelIf(evicted, "lrucache_with_evictions")
		rec.LabelIf(req > 223, "lrucache_requested_beyond_max")
		rec.Label(fmt.Sprintf("lrucache_capacity_%d", capy))
	})

	// ------------------------------------------------------------ cache
	rt.Check(t, rec, "cache", 800, 8000, func(t *rapid.T) {
		calls := 0
		produced := map[int]int{} // key -> value of the latest getter call
		getter := func(k int) int { calls++; v := k*100000 + calls; produced[k] = v; return v }
		conc := uni(t, 2, "conc") == 0
		var get func(int) int
		if conc {
			get = cache.NewConc(getter).Get
		} else {
			get = cache.New(getter).Get
		}
		d := pick(t, []int{3, 8, 9, 12, 40}, "domain")
		r := newRng(t, "ops")
		nops := 10 + r.n(200)
		type acc struct {
			key    int
			called bool
		}
		var hist []acc
		prev := -1
		for i := 0; i < nops; i++ {
			k := r.n(d)
			if r.n(4) == 0 && prev >= 0 {
				k = prev
			}
			before := calls
			v := get(k)
			called := calls > before
			if calls > before+1 {
				t.Fatalf("Get(%d) called the getter %d times", k, calls-before)
			}
			if pv, in := produced[k]; !in || v != pv {
				t.Fatalf("step %d: Get(%d) = %d, the getter's latest value for that key is %d (%v)", i, k, v, pv, in)
			}
			if k == prev && called {
				t.Fatalf("step %d: Get(%d) repeated immediately calls the getter again", i, k)
			}
			hist = append(hist, acc{k, called})
			prev = k
		}
		// capacity: at any time, the keys that will next be served without a
		// getter call are all in the cache: at most 8 of them
		next := map[int]bool{} // key -> its next access (later in time) is a hit
		maxLive := 0
		for i := len(hist) - 1; i >= 0; i-- {
			a := hist[i]
			// state just after access i: a.key is cached iff its next access is a hit
			live := 0
			for _, h := range next {
				if h {
					live++
				}
			}
			if live > maxLive {
				maxLive = live
			}
			if live > 8 {
				t.Fatalf("after access %d, %d distinct keys are later served from the cache; capacity is 8", i, live)
			}
			next[a.key] = !a.called
		}
		hitsN := 0
		for _, a := range hist {
			if !a.called {
				hitsN++
			}
		}
		rec.Case(hitsN > 0 && calls > 8, fmt.Sprint("ca", d, conc, nops, r.s))
		rec.LabelIf(calls > 8, "cache_with_replacement")
		rec.LabelIf(hitsN > 0, "cache_with_hits")
		rec.Label(fmt.Sprintf("cache_max_keys_served_from_cache_%d", maxLive))
	})
}

// lruKey: key type for lrucache with selectable hash quality.
type lruKey int

var lruKeyMode int

func (k lruKey) Hash() uint64 {
	switch lruKeyMode {
	case 0:
		return mix64(uint64(k))
	case 1:
		return uint64(k % 4) // heavy collisions
	}
	return uint64(k) << 7 // identical control bytes
}

func (k lruKey) Equal(other any) bool {
	o, ok := other.(lruKey)
	return ok && o == k
}
