package utilx

import (
	"pgregory.net/rapid"
	"verifharness/internal/gen"
)

// rapid's integer generators are deliberately biased towards small values;
// for categorical choices that skews the construct distribution badly (most
// patterns come out as single literals), so choices go through gen.Uniform.
// Bulk data (thousands of keys) is expanded from one rapid-drawn seed.

func mix64(x uint64) uint64 {
	x += 0x9e3779b97f4a7c15
	x = (x ^ (x >> 30)) * 0xbf58476d1ce4e5b9
	x = (x ^ (x >> 27)) * 0x94d049bb133111eb
	return x ^ (x >> 31)
}

var mix0 = mix64(0)

func spread(u uint64) uint64 { return mix64(u) ^ mix0 }

// uni: uniform choice in [0,n) (shared unbiased helper).
func uni(t *rapid.T, n int, label string) int {
	return gen.Uniform(t, label, n)
}

// rng: deterministic stream expanded from one rapid-drawn seed (for bulk data
// such as 20 000 keys, where one rapid draw per element would dominate the run time).
type rng struct{ s uint64 }

func newRng(t *rapid.T, label string) *rng {
	// two unbiased 31-bit draws (rapid.Uint64 itself is biased towards small values)
	return &rng{s: spread(uint64(gen.Uniform(t, label, 1<<31))<<31 | uint64(gen.Uniform(t, label+"2", 1<<31)))}
}

func (r *rng) next() uint64 {
	r.s += 0x9e3779b97f4a7c15
	return mix64(r.s)
}

func (r *rng) n(k int) int {
	if k <= 1 {
		return 0
	}
	return int(r.next() % uint64(k))
}

// pick: uniform choice from a slice.
func pick[T any](t *rapid.T, list []T, label string) T {
	return list[uni(t, len(list), label)]
}

func newChooser(t *rapid.T) *chooser {
	r := newRng(t, "choices")
	b := make([]byte, 48)
	for i := range b {
		b[i] = byte(r.next() >> 24)
	}
	return &chooser{b: b}
}
