package utilx

// Pattern ASTs for C37: generated with rapid, rendered to Suneido regex syntax
// and to Go regexp syntax, sampled to get subjects that (nearly) match.

import (
	"fmt"
	"strings"

	"pgregory.net/rapid"
)

type kind int

const (
	kEmpty kind = iota
	kLit
	kDot
	kClass
	kShort // \d \D \w \W \s \S outside a class
	kBol   // ^
	kEol   // $
	kBos   // \A
	kEos   // \Z
	kWordStart
	kWordEnd
	kGroup
	kCat
	kAlt
	kQuant
	kQuoted // (?q)text(?-q)
)

var kindNames = map[kind]string{kEmpty: "empty", kLit: "lit", kDot: "dot", kClass: "class", kShort: "shortcut",
	kBol: "bol", kEol: "eol", kBos: "bos", kEos: "eos", kWordStart: "wordstart", kWordEnd: "wordend",
	kGroup: "group", kCat: "cat", kAlt: "alt", kQuant: "quant", kQuoted: "quoted"}

type citem struct {
	typ    int // 0 char, 1 range, 2 shortcut, 3 posix
	lo, hi byte
	name   string // posix name, or shortcut letter
}

type node struct {
	kind  kind
	c     byte // kLit char, kShort letter
	ci    bool // ignore case (leaves)
	neg   bool // kClass
	items []citem
	sub   []*node
	min   int  // kQuant 0|1
	max   int  // kQuant 1|-1
	lazy  bool // kQuant
	s     string
	gi    int // group index (1-based, in order of left parenthesis)
}

func isAlnum(c byte) bool {
	return 'a' <= c && c <= 'z' || 'A' <= c && c <= 'Z' || '0' <= c && c <= '9'
}

// ---------------------------------------------------------------- analysis

func (n *node) walk(f func(*node)) {
	f(n)
	for _, s := range n.sub {
		s.walk(f)
	}
}

func (n *node) has(k kind) bool {
	found := false
	n.walk(func(x *node) {
		if x.kind == k {
			found = true
		}
	})
	return found
}

// number assigns group indexes in order of the left parenthesis (pre-order).
func (n *node) number() int {
	g := 0
	n.walk(func(x *node) {
		if x.kind == kGroup {
			g++
			x.gi = g
		}
	})
	return g
}

func nullable(n *node) bool {
	switch n.kind {
	case kEmpty, kBol, kEol, kBos, kEos, kWordStart, kWordEnd:
		return true
	case kLit, kDot, kClass, kShort:
		return false
	case kQuoted:
		return len(n.s) == 0
	case kGroup:
		return nullable(n.sub[0])
	case kCat:
		for _, s := range n.sub {
			if !nullable(s) {
				return false
			}
		}
		return true
	case kAlt:
		for _, s := range n.sub {
			if nullable(s) {
				return true
			}
		}
		return false
	case kQuant:
		return n.min == 0 || nullable(n.sub[0])
	}
	panic("nullable")
}

// hasNullableLoop: some * or + whose body can match the empty string.
func hasNullableLoop(n *node) bool {
	found := false
	n.walk(func(x *node) {
		if x.kind == kQuant && x.max < 0 && nullable(x.sub[0]) {
			found = true
		}
	})
	return found
}

// nestedLoopDepth: maximum nesting of unbounded quantifiers.
func nestedLoopDepth(n *node) int {
	d := 0
	for _, s := range n.sub {
		if x := nestedLoopDepth(s); x > d {
			d = x
		}
	}
	if n.kind == kQuant && n.max < 0 {
		d++
	}
	return d
}

// constructs returns the set of construct labels used by the pattern.
func constructs(n *node) []string {
	set := map[string]bool{}
	n.walk(func(x *node) {
		switch x.kind {
		case kCat:
		case kQuant:
			op := "?"
			if x.max < 0 {
				op = "*"
				if x.min == 1 {
					op = "+"
				}
			}
			if x.lazy {
				op += "lazy"
			}
			set["quant"+op] = true
		case kClass:
			if x.neg {
				set["negclass"] = true
			} else {
				set["class"] = true
			}
			for _, it := range x.items {
				set[[]string{"class_char", "class_range", "class_shortcut", "class_posix"}[it.typ]] = true
			}
			if x.ci {
				set["ignorecase"] = true
			}
		case kLit, kQuoted:
			set[kindNames[x.kind]] = true
			if x.ci {
				set["ignorecase"] = true
			}
		default:
			set[kindNames[x.kind]] = true
		}
	})
	var r []string
	for _, k := range []string{"lit", "dot", "class", "negclass", "class_char", "class_range", "class_shortcut",
		"class_posix", "shortcut", "bol", "eol", "bos", "eos", "wordstart", "wordend", "group", "alt", "empty",
		"quant?", "quant*", "quant+", "quant?lazy", "quant*lazy", "quant+lazy", "quoted", "ignorecase"} {
		if set[k] {
			r = append(r, k)
		}
	}
	return r
}

// ---------------------------------------------------------------- rendering

type renderer struct {
	sb   strings.Builder
	goSy bool
	ci   bool
}

func (r *renderer) setCI(want bool) {
	if r.ci != want {
		if want {
			r.sb.WriteString("(?i)")
		} else {
			r.sb.WriteString("(?-i)")
		}
		r.ci = want
	}
}

const suSpecial = `.*+?()[]|^$\`

func (r *renderer) lit(c byte) {
	if r.goSy {
		if isAlnum(c) {
			r.sb.WriteByte(c)
		} else {
			fmt.Fprintf(&r.sb, `\x%02x`, c)
		}
		return
	}
	if strings.IndexByte(suSpecial, c) >= 0 {
		r.sb.WriteByte('\\')
	}
	r.sb.WriteByte(c)
}

func (r *renderer) class(n *node) {
	r.sb.WriteByte('[')
	if n.neg {
		r.sb.WriteByte('^')
	}
	dash := false
	for _, it := range n.items {
		switch it.typ {
		case 0:
			c := it.lo
			if r.goSy {
				if isAlnum(c) {
					r.sb.WriteByte(c)
				} else {
					fmt.Fprintf(&r.sb, `\x%02x`, c)
				}
			} else if c == '-' {
				dash = true // a literal dash goes last (documented)
			} else {
				if strings.IndexByte(`]\^[`, c) >= 0 {
					r.sb.WriteByte('\\')
				}
				r.sb.WriteByte(c)
			}
		case 1:
			r.sb.WriteByte(it.lo)
			r.sb.WriteByte('-')
			r.sb.WriteByte(it.hi)
		case 2:
			r.sb.WriteString(`\` + it.name)
		case 3:
			r.sb.WriteString("[:" + it.name + ":]")
		}
	}
	if dash {
		r.sb.WriteByte('-')
	}
	r.sb.WriteByte(']')
}

func (r *renderer) node(n *node) {
	switch n.kind {
	case kEmpty:
	case kLit:
		r.setCI(n.ci)
		r.lit(n.c)
	case kDot:
		if r.goSy {
			r.sb.WriteString(`[^\r\n]`)
		} else {
			r.sb.WriteByte('.')
		}
	case kClass:
		r.setCI(n.ci)
		r.class(n)
	case kShort:
		r.sb.WriteString(`\` + string(n.c))
	case kBol:
		r.sb.WriteByte('^')
	case kEol:
		r.sb.WriteByte('$')
	case kBos:
		r.sb.WriteString(`\A`)
	case kEos:
		if r.goSy {
			r.sb.WriteString(`\z`)
		} else {
			r.sb.WriteString(`\Z`)
		}
	case kWordStart:
		if r.goSy {
			panic("no Go rendering for \\<")
		}
		r.sb.WriteString(`\<`)
	case kWordEnd:
		if r.goSy {
			panic("no Go rendering for \\>")
		}
		r.sb.WriteString(`\>`)
	case kGroup:
		save := r.ci
		r.sb.WriteByte('(')
		r.node(n.sub[0])
		r.setCI(save) // same flag state after the group whatever the scoping rule
		r.sb.WriteByte(')')
	case kCat:
		for _, s := range n.sub {
			r.node(s)
		}
	case kAlt:
		for i, s := range n.sub {
			if i > 0 {
				r.sb.WriteByte('|')
			}
			r.node(s)
		}
	case kQuant:
		r.node(n.sub[0])
		switch {
		case n.max == 1:
			r.sb.WriteByte('?')
		case n.min == 0:
			r.sb.WriteByte('*')
		default:
			r.sb.WriteByte('+')
		}
		if n.lazy {
			r.sb.WriteByte('?')
		}
	case kQuoted:
		r.setCI(n.ci)
		if r.goSy {
			for i := 0; i < len(n.s); i++ {
				r.lit(n.s[i])
			}
		} else {
			r.sb.WriteString("(?q)" + n.s + "(?-q)")
		}
	}
}

func renderSu(n *node) string {
	r := renderer{}
	r.node(n)
	return r.sb.String()
}

// renderGo: (?m) so that ^ and $ are line anchors as in Suneido.
func renderGo(n *node) string {
	r := renderer{goSy: true}
	r.sb.WriteString("(?m)")
	r.node(n)
	return r.sb.String()
}

// ---------------------------------------------------------------- generation

type gcfg struct {
	suOnly       bool // allow \< \> (no Go rendering)
	nullableLoop bool // allow * and + over bodies that can match empty
	highBytes    bool // literals >= 0x80
	ciMode       int  // 0 none, 1 all, 2 mixed
	groups       int
	shape        string
}

const litLetters = "abcABC"
const litDigits = "01"
const litMisc = "_ -"
const litSpecial = ".*+?()[]|^$\\<>{}"
const litCtl = "\n\t\r"
const litOther = "#@/:&"

func genLitChar(t *rapid.T, cfg *gcfg) byte {
	w := uni(t, 100, "litcls")
	pick := func(s string) byte { return s[uni(t, len(s), "litc")] }
	switch {
	case w < 62:
		return pick(litLetters)
	case w < 72:
		return pick(litDigits)
	case w < 80:
		return pick(litMisc)
	case w < 90:
		return pick(litSpecial)
	case w < 94:
		return pick(litCtl)
	case w < 98 || !cfg.highBytes:
		return pick(litOther)
	default:
		return pick("\xe9\xff")
	}
}

func (cfg *gcfg) ci(t *rapid.T) bool {
	switch cfg.ciMode {
	case 1:
		return true
	case 2:
		return uni(t, 10, "ci") < 4
	}
	return false
}

var posixNames = []string{"alnum", "alpha", "blank", "cntrl", "digit", "graph", "lower", "print", "punct", "space", "upper", "xdigit"}

func genClass(t *rapid.T, cfg *gcfg) *node {
	n := &node{kind: kClass, neg: uni(t, 10, "neg") < 3, ci: cfg.ci(t)}
	ni := 1 + uni(t, 4, "nitems")
	for i := 0; i < ni; i++ {
		switch w := uni(t, 10, "itemtyp"); {
		case w < 4:
			n.items = append(n.items, citem{typ: 0, lo: genLitChar(t, cfg)})
		case w < 7:
			const rs = "abcxyzABCXYZ0189"
			var lo, hi byte
			if uni(t, 10, "rangecross") == 0 {
				lo, hi = rs[uni(t, len(rs), "lo")], rs[uni(t, len(rs), "hi")]
			} else { // within one category
				cat := pick(t, []string{"abcxyz", "ABCXYZ", "0189"}, "rcat")
				lo, hi = cat[uni(t, len(cat), "lo")], cat[uni(t, len(cat), "hi")]
			}
			if lo > hi {
				lo, hi = hi, lo
			}
			n.items = append(n.items, citem{typ: 1, lo: lo, hi: hi})
		case w < 8:
			n.items = append(n.items, citem{typ: 2, name: pick(t, []string{"d", "D", "w", "W", "s", "S"}, "sc")})
		default:
			n.items = append(n.items, citem{typ: 3, name: pick(t, posixNames, "posix")})
		}
	}
	return n
}

func genLeaf(t *rapid.T, cfg *gcfg) *node {
	w := uni(t, 100, "leaf")
	switch {
	case w < 50:
		return &node{kind: kLit, c: genLitChar(t, cfg), ci: cfg.ci(t)}
	case w < 60:
		return &node{kind: kDot}
	case w < 74:
		return genClass(t, cfg)
	case w < 80:
		return &node{kind: kShort, c: "dDwWsS"[uni(t, 6, "sc")]}
	case w < 84:
		return &node{kind: kBol}
	case w < 88:
		return &node{kind: kEol}
	case w < 90:
		return &node{kind: kBos}
	case w < 92:
		return &node{kind: kEos}
	case w < 96:
		n := &node{kind: kQuoted, ci: cfg.ci(t)}
		k := uni(t, 4, "qlen")
		for i := 0; i < k; i++ {
			n.s += string(genLitChar(t, cfg))
		}
		if strings.Contains(n.s, "(?-q)") {
			n.s = "q"
		}
		return n
	default:
		if cfg.suOnly {
			if rapid.Bool().Draw(t, "wb") {
				return &node{kind: kWordStart}
			}
			return &node{kind: kWordEnd}
		}
		return &node{kind: kLit, c: genLitChar(t, cfg), ci: cfg.ci(t)}
	}
}

// atom: something a quantifier can be applied to in both syntaxes.
func isAtom(n *node) bool {
	switch n.kind {
	case kLit, kDot, kClass, kShort, kGroup:
		return true
	}
	return false
}

func group(cfg *gcfg, n *node) *node {
	if n.kind == kEmpty { // "()" is refused by Suneido
		n = &node{kind: kAlt, sub: []*node{{kind: kEmpty}, {kind: kLit, c: 'a'}}}
	}
	cfg.groups++
	return &node{kind: kGroup, sub: []*node{n}}
}

func genNode(t *rapid.T, cfg *gcfg, depth int) *node {
	if depth <= 0 {
		return genLeaf(t, cfg)
	}
	w := uni(t, 100, "node")
	switch {
	case w < 30:
		return genLeaf(t, cfg)
	case w < 55: // concatenation
		k := 2 + uni(t, 3, "ncat")
		n := &node{kind: kCat}
		for i := 0; i < k; i++ {
			s := genNode(t, cfg, depth-1)
			if s.kind == kAlt {
				s = group(cfg, s)
			}
			n.sub = append(n.sub, s)
		}
		return n
	case w < 68: // alternation
		k := 2 + uni(t, 2, "nalt")
		n := &node{kind: kAlt}
		for i := 0; i < k; i++ {
			var s *node
			if uni(t, 15, "emptyalt") == 0 {
				s = &node{kind: kEmpty}
			} else {
				s = genNode(t, cfg, depth-1)
			}
			if s.kind == kAlt {
				s = group(cfg, s)
			}
			n.sub = append(n.sub, s)
		}
		return n
	case w < 90: // quantifier
		s := genNode(t, cfg, depth-1)
		if !isAtom(s) {
			s = group(cfg, s)
		}
		q := &node{kind: kQuant, sub: []*node{s}, lazy: uni(t, 10, "lazy") < 3}
		switch uni(t, 3, "qop") {
		case 0:
			q.min, q.max = 0, 1
		case 1:
			q.min, q.max = 0, -1
		default:
			q.min, q.max = 1, -1
		}
		if q.max < 0 && !cfg.nullableLoop && nullable(s) {
			// make the body consume something
			body := &node{kind: kCat, sub: []*node{{kind: kLit, c: genLitChar(t, cfg), ci: cfg.ci(t)}, s}}
			q.sub[0] = group(cfg, body)
		}
		return q
	default:
		return group(cfg, genNode(t, cfg, depth-1))
	}
}

// genPattern: a whole pattern; shapes chosen so that every execution path of the
// implementation (literal, one-pass = \A-anchored, literal prefix, general) is frequent.
func genPattern(t *rapid.T, cfg *gcfg) *node {
	cfg.ciMode = []int{0, 0, 0, 0, 0, 0, 0, 1, 2, 2}[uni(t, 10, "cimode")]
	shape := uni(t, 100, "shape")
	var n *node
	if shape >= 76 { // \A-anchored choices over a tiny letter pool, case modes mixed
		cfg.shape = "anchored_choice"
		n = genAnchoredChoice(t, cfg)
		n.number()
		return n
	}
	switch {
	case shape < 8: // pure literal
		n = &node{kind: kCat}
		k := uni(t, 5, "nlit")
		for i := 0; i < k; i++ {
			n.sub = append(n.sub, &node{kind: kLit, c: genLitChar(t, cfg), ci: cfg.ci(t)})
		}
	case shape < 16: // literal prefix then something
		n = &node{kind: kCat}
		k := 1 + uni(t, 3, "nlit")
		for i := 0; i < k; i++ {
			n.sub = append(n.sub, &node{kind: kLit, c: genLitChar(t, cfg), ci: cfg.ci(t)})
		}
		s := genNode(t, cfg, 2)
		if s.kind == kAlt {
			s = group(cfg, s)
		}
		n.sub = append(n.sub, s)
	default:
		n = genNode(t, cfg, 1+uni(t, 4, "depth"))
	}
	pre := uni(t, 100, "anchors")
	if pre < 40 {
		if n.kind == kAlt {
			n = group(cfg, n)
		}
		c := &node{kind: kCat}
		if pre < 28 {
			c.sub = append(c.sub, &node{kind: kBos})
		}
		c.sub = append(c.sub, n)
		if pre >= 18 {
			c.sub = append(c.sub, &node{kind: kEos})
		}
		n = c
	}
	n.number()
	return n
}

// genAnchoredChoice: \A followed by a few elements that are choices (alternation
// groups, ? * +) between short literal runs drawn from a pool of one to three
// letters in both cases, each literal independently case sensitive or under
// (?i). The continuations of a choice therefore often begin with the same
// letter in different case modes: the neighbourhood where the first-character
// analysis of the one-pass path decides between "disjoint" and "overlapping".
func genAnchoredChoice(t *rapid.T, cfg *gcfg) *node {
	pool := pick(t, []string{"a", "a", "ab", "ab", "aq", "abq", "ay1", "xq"}, "pool")
	if uni(t, 5, "ciforce") != 0 {
		cfg.ciMode = 2
	}
	lit := func() *node {
		c := pool[uni(t, len(pool), "poolc")]
		if uni(t, 2, "upper") == 0 {
			c = upperB(c)
		}
		ci := cfg.ciMode == 1 || (cfg.ciMode == 2 && uni(t, 2, "ci") == 0)
		return &node{kind: kLit, c: c, ci: ci}
	}
	run := func(maxLen int) *node {
		k := 1 + uni(t, maxLen, "runlen")
		if k == 1 {
			return lit()
		}
		c := &node{kind: kCat}
		for i := 0; i < k; i++ {
			c.sub = append(c.sub, lit())
		}
		return c
	}
	quant := func(body *node) *node {
		q := &node{kind: kQuant, sub: []*node{body}, lazy: uni(t, 8, "lazy") == 0}
		switch uni(t, 3, "qop") {
		case 0:
			q.min, q.max = 0, 1
		case 1:
			q.min, q.max = 0, -1
		default:
			q.min, q.max = 1, -1
		}
		return q
	}
	elem := func() *node {
		switch w := uni(t, 20, "elem"); {
		case w < 4:
			return lit()
		case w < 9:
			return quant(lit())
		case w < 15: // alternation of short runs, sometimes repeated
			a := &node{kind: kAlt}
			for i, k := 0, 2+uni(t, 2, "nalt"); i < k; i++ {
				a.sub = append(a.sub, run(3))
			}
			g := group(cfg, a)
			if uni(t, 3, "altq") == 0 {
				return quant(g)
			}
			return g
		case w < 18:
			return quant(group(cfg, run(2)))
		default:
			n := &node{kind: kClass, ci: cfg.ciMode == 2 && uni(t, 2, "ci") == 0}
			for i, k := 0, 1+uni(t, 2, "nitems"); i < k; i++ {
				l := lit()
				n.items = append(n.items, citem{typ: 0, lo: l.c})
			}
			if uni(t, 3, "clsq") == 0 {
				return quant(n)
			}
			return n
		}
	}
	c := &node{kind: kCat, sub: []*node{{kind: kBos}}}
	for i, k := 0, 1+uni(t, 4, "nelems"); i < k; i++ {
		c.sub = append(c.sub, elem())
	}
	if uni(t, 5, "eos") < 2 {
		c.sub = append(c.sub, &node{kind: kEos})
	}
	return c
}

// firstSet: the bytes that can start a match of n (anchors are transparent),
// and whether n can match without consuming. foldCase=false ignores (?i).
func firstSet(n *node, foldCase bool) (set [256]bool, empty bool) {
	switch n.kind {
	case kLit, kDot, kClass, kShort:
		m := *n
		if !foldCase {
			m.ci = false
		}
		for c := 0; c < 256; c++ {
			set[c] = leafMatches(&m, byte(c), omOpts{})
		}
		return set, false
	case kQuoted:
		if n.s == "" {
			return set, true
		}
		return firstSet(&node{kind: kLit, c: n.s[0], ci: n.ci}, foldCase)
	case kGroup:
		return firstSet(n.sub[0], foldCase)
	case kQuant:
		set, empty = firstSet(n.sub[0], foldCase)
		return set, empty || n.min == 0
	case kAlt:
		for _, a := range n.sub {
			s, e := firstSet(a, foldCase)
			for c := range set {
				set[c] = set[c] || s[c]
			}
			empty = empty || e
		}
		return set, empty
	case kCat:
		return firstOfSeq(n.sub, foldCase)
	}
	return set, true // empty and zero-width assertions
}

func firstOfSeq(list []*node, foldCase bool) (set [256]bool, empty bool) {
	for _, x := range list {
		s, e := firstSet(x, foldCase)
		for c := range set {
			set[c] = set[c] || s[c]
		}
		if !e {
			return set, false
		}
	}
	return set, true
}

func setsOverlap(a, b [256]bool) bool {
	for c := range a {
		if a[c] && b[c] {
			return true
		}
	}
	return false
}

// choiceOverlap classifies the choice points of a pattern (alternation
// branches against each other; the body of ? * + against what follows it in
// the enclosing sequence): overlap = some choice has continuations that can
// start with the same byte; onlyByCase = for some choice that is so only
// because of (?i) (with case folding ignored the first bytes are disjoint).
func choiceOverlap(n *node) (choices int, overlap, onlyByCase bool) {
	judge := func(a, b []*node) {
		choices++
		fa, _ := firstOfSeq(a, true)
		fb, _ := firstOfSeq(b, true)
		if !setsOverlap(fa, fb) {
			return
		}
		overlap = true
		ra, _ := firstOfSeq(a, false)
		rb, _ := firstOfSeq(b, false)
		if !setsOverlap(ra, rb) {
			onlyByCase = true
		}
	}
	var visit func(x *node, follow []*node)
	visit = func(x *node, follow []*node) {
		switch x.kind {
		case kAlt:
			for i := range x.sub {
				for j := i + 1; j < len(x.sub); j++ {
					judge(append([]*node{x.sub[i]}, follow...), append([]*node{x.sub[j]}, follow...))
				}
				visit(x.sub[i], follow)
			}
		case kQuant:
			judge([]*node{x.sub[0]}, follow)
			f := follow
			if x.max < 0 {
				f = append([]*node{x}, follow...)
			}
			visit(x.sub[0], f)
		case kGroup:
			visit(x.sub[0], follow)
		case kCat:
			for i, s := range x.sub {
				visit(s, append(append([]*node{}, x.sub[i+1:]...), follow...))
			}
		}
	}
	visit(n, nil)
	return
}

// startsWithBos: the pattern begins with \A (then a random prefix in the
// subject only produces trivial non-matches).
func startsWithBos(n *node) bool {
	for n.kind == kCat && len(n.sub) > 0 {
		n = n.sub[0]
	}
	return n.kind == kBos
}

// ---------------------------------------------------------------- subjects

const subjAlpha = "abcABCabc01_ -.\n\n"
const subjExtra = "*]^$(\\<\t#xyzXYZ89"

// chooser turns a drawn byte slice into a stream of small choices.
type chooser struct {
	b []byte
	i int
}

func (c *chooser) n(k int) int {
	if k <= 1 || len(c.b) == 0 {
		return 0
	}
	v := int(c.b[c.i%len(c.b)]) + c.i/len(c.b)
	c.i++
	return v % k
}

func flipCase(c byte) byte {
	if 'a' <= c && c <= 'z' {
		return c - 32
	}
	if 'A' <= c && c <= 'Z' {
		return c + 32
	}
	return c
}

// sample produces a string that the node is likely to match (anchors ignored).
func sample(n *node, ch *chooser, alpha string, opt omOpts) string {
	switch n.kind {
	case kLit:
		if n.ci && ch.n(2) == 1 {
			return string(flipCase(n.c))
		}
		return string(n.c)
	case kQuoted:
		return n.s
	case kDot, kClass, kShort:
		start := ch.n(len(alpha))
		for k := 0; k < len(alpha); k++ {
			c := alpha[(start+k)%len(alpha)]
			if leafMatches(n, c, opt) {
				return string(c)
			}
		}
		return ""
	case kGroup:
		return sample(n.sub[0], ch, alpha, opt)
	case kCat:
		s := ""
		for _, x := range n.sub {
			s += sample(x, ch, alpha, opt)
		}
		return s
	case kAlt:
		return sample(n.sub[ch.n(len(n.sub))], ch, alpha, opt)
	case kQuant:
		k := n.min + ch.n(2)
		if n.max < 0 {
			k = n.min + ch.n(4)
		}
		s := ""
		for i := 0; i < k; i++ {
			s += sample(n.sub[0], ch, alpha, opt)
		}
		return s
	}
	return ""
}

func randStr(ch *chooser, alpha string, maxLen int) string {
	k := ch.n(maxLen + 1)
	b := make([]byte, k)
	for i := range b {
		b[i] = alpha[ch.n(len(alpha))]
	}
	return string(b)
}

// genSubject: half of the subjects embed a sample of the pattern.
func genSubject(t *rapid.T, n *node, alpha string, opt omOpts) string {
	ch := newChooser(t)
	mode := uni(t, 12, "subjmode")
	var s string
	switch {
	case mode < 5:
		pre := randStr(ch, alpha, 4)
		if startsWithBos(n) && ch.n(4) != 0 {
			pre = ""
		}
		s = pre + sample(n, ch, alpha, opt) + randStr(ch, alpha, 4)
	case mode < 7:
		s = sample(n, ch, alpha, opt)
	case mode >= 10: // upper/lower variants of the pattern's own text
		b := []byte(sample(n, ch, alpha, opt))
		for i := range b {
			if ch.n(3) == 0 {
				b[i] = flipCase(b[i])
			}
		}
		s = string(b) + randStr(ch, alpha, 2)
	case mode < 8: // sample with one byte changed
		b := []byte(randStr(ch, alpha, 2) + sample(n, ch, alpha, opt) + randStr(ch, alpha, 2))
		if len(b) > 0 {
			b[ch.n(len(b))] = alpha[ch.n(len(alpha))]
		}
		s = string(b)
	default:
		s = randStr(ch, alpha, 10)
	}
	if len(s) > 40 {
		s = s[:40]
	}
	return s
}

// lazyStarNullableInLoop: a *? over a nullable body inside another unbounded
// quantifier (class of known finding C37 lazy-star-nullable-body-in-loop).
func lazyStarNullableInLoop(n *node, inLoop bool) bool {
	if n.kind == kQuant && n.max < 0 {
		if inLoop && n.lazy && n.min == 0 && nullable(n.sub[0]) {
			return true
		}
		inLoop = true
	}
	for _, s := range n.sub {
		if lazyStarNullableInLoop(s, inLoop) {
			return true
		}
	}
	return false
}

// literalEosThenDirective: the whole pattern is case-sensitive literal text
// (optionally after \A) ending in \Z, and the source continues after \Z with
// zero-width directives only (here: empty (?q)(?-q)) - class of known finding
// C37 literal-strend-followed-by-directive.
func literalEosThenDirective(n *node) bool {
	var flat []*node
	var fl func(x *node)
	fl = func(x *node) {
		if x.kind == kCat {
			for _, s := range x.sub {
				fl(s)
			}
		} else if x.kind != kEmpty {
			flat = append(flat, x)
		}
	}
	fl(n)
	i := 0
	if i < len(flat) && flat[i].kind == kBos {
		i++
	}
	for i < len(flat) && (flat[i].kind == kLit || flat[i].kind == kQuoted) && !flat[i].ci {
		i++
	}
	if i >= len(flat) || flat[i].kind != kEos {
		return false
	}
	i++
	if i >= len(flat) {
		return false // \Z is the end of the source: handled correctly
	}
	for ; i < len(flat); i++ {
		if !(flat[i].kind == kQuoted && flat[i].s == "") { // may carry a (?i) toggle
			return false
		}
	}
	return true
}
