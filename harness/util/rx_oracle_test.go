package utilx

// Own backtracking matcher over the pattern AST (second oracle of C37), written
// from suneidoc "Regular Expressions": leftmost match, first alternative that
// lets the whole match succeed, greedy / non-greedy quantifiers, byte based.

// omOpts: places where the implementation is known to deviate from the
// documentation (each is a known_findings.json candidate); false = as documented.
type omOpts struct {
	spaceVTFF bool // true: \s is " \t\r\n" only (doc: [\x09-\x0d\x20])
}

func isWordCh(c byte) bool { return isAlnum(c) || c == '_' }

func isSpaceCh(c byte, opt omOpts) bool {
	if opt.spaceVTFF {
		return c == ' ' || c == '\t' || c == '\r' || c == '\n'
	}
	return c == ' ' || (9 <= c && c <= 13)
}

func shortcutHas(letter byte, c byte, opt omOpts) bool {
	switch letter {
	case 'd':
		return '0' <= c && c <= '9'
	case 'D':
		return !('0' <= c && c <= '9')
	case 'w':
		return isWordCh(c)
	case 'W':
		return !isWordCh(c)
	case 's':
		return isSpaceCh(c, opt)
	case 'S':
		return !isSpaceCh(c, opt)
	}
	panic("shortcut")
}

func posixHas(name string, c byte, opt omOpts) bool {
	lower := 'a' <= c && c <= 'z'
	upper := 'A' <= c && c <= 'Z'
	digit := '0' <= c && c <= '9'
	switch name {
	case "alnum":
		return lower || upper || digit
	case "alpha":
		return lower || upper
	case "blank":
		return c == ' ' || c == '\t'
	case "cntrl":
		return c < 32 || c == 127
	case "digit":
		return digit
	case "graph":
		return 0x21 <= c && c <= 0x7e
	case "lower":
		return lower
	case "print":
		return 0x20 <= c && c <= 0x7e
	case "punct":
		return 0x21 <= c && c <= 0x7e && !(lower || upper || digit)
	case "space":
		return isSpaceCh(c, opt)
	case "upper":
		return upper
	case "xdigit":
		return digit || 'a' <= c && c <= 'f' || 'A' <= c && c <= 'F'
	}
	panic("posix " + name)
}

func classHas1(n *node, c byte, opt omOpts) bool {
	for _, it := range n.items {
		switch it.typ {
		case 0:
			if c == it.lo {
				return true
			}
		case 1:
			if it.lo <= c && c <= it.hi {
				return true
			}
		case 2:
			if shortcutHas(it.name[0], c, opt) {
				return true
			}
		case 3:
			if posixHas(it.name, c, opt) {
				return true
			}
		}
	}
	return false
}

// leafMatches: does the single-character construct n match byte c.
func leafMatches(n *node, c byte, opt omOpts) bool {
	switch n.kind {
	case kLit:
		return c == n.c || (n.ci && flipCase(c) == n.c && flipCase(c) != c)
	case kDot:
		return c != '\n' && c != '\r' // NUL matches, as in Go (the suneidoc note says otherwise)
	case kShort:
		return shortcutHas(n.c, c, opt)
	case kClass:
		in := classHas1(n, c, opt)
		if !in && n.ci && flipCase(c) != c {
			in = classHas1(n, flipCase(c), opt)
		}
		return in != n.neg
	}
	panic("leafMatches")
}

type caps [20]int32

type om struct {
	s      string
	opt    omOpts
	steps  int
	budget int
	over   bool
	cap    caps
}

func (m *om) lineEnd(i int) bool {
	s := m.s
	// end of string, before a return, before a newline (CR LF is one line end:
	// repo test `"xyz\r\n\r\nxyz" =~ "^[^x].*$"` is false)
	return i >= len(s) || s[i] == '\r' || (s[i] == '\n' && !(i > 0 && s[i-1] == '\r'))
}

func (m *om) zero(n *node, i int) bool {
	s := m.s
	switch n.kind {
	case kBol:
		return i == 0 || s[i-1] == '\n'
	case kEol:
		return m.lineEnd(i)
	case kBos:
		return i == 0
	case kEos:
		return i == len(s)
	// \< and \> are outside the Go common subset; they are judged by the
	// one-sided definition the repo's own stdlib patterns rely on
	// (e.g. '\<rcvr\:\>' in stdlib/Init.ss could never match under a
	// two-sided reading): \< = not preceded by a word character,
	// \> = not followed by one.
	case kWordStart:
		return i == 0 || !isWordCh(s[i-1])
	case kWordEnd:
		return i >= len(s) || !isWordCh(s[i])
	}
	panic("zero")
}

// m: match n at i, then the continuation k.
func (m *om) m(n *node, i int, k func(int) bool) bool {
	m.steps++
	if m.steps > m.budget {
		m.over = true
		return false
	}
	switch n.kind {
	case kEmpty:
		return k(i)
	case kLit, kDot, kClass, kShort:
		if i < len(m.s) && leafMatches(n, m.s[i], m.opt) {
			return k(i + 1)
		}
		return false
	case kQuoted:
		for j := 0; j < len(n.s); j++ {
			if i+j >= len(m.s) {
				return false
			}
			c := m.s[i+j]
			if !(c == n.s[j] || (n.ci && flipCase(c) == n.s[j] && flipCase(c) != c)) {
				return false
			}
		}
		return k(i + len(n.s))
	case kBol, kEol, kBos, kEos, kWordStart, kWordEnd:
		if m.zero(n, i) {
			return k(i)
		}
		return false
	case kGroup:
		g := n.gi
		if g >= 10 {
			return m.m(n.sub[0], i, k)
		}
		os, oe := m.cap[2*g], m.cap[2*g+1]
		m.cap[2*g] = int32(i)
		if m.m(n.sub[0], i, func(j int) bool {
			pe := m.cap[2*g+1]
			m.cap[2*g+1] = int32(j)
			if k(j) {
				return true
			}
			m.cap[2*g+1] = pe
			return false
		}) {
			return true
		}
		m.cap[2*g], m.cap[2*g+1] = os, oe
		return false
	case kCat:
		return m.cat(n.sub, i, k)
	case kAlt:
		for _, a := range n.sub {
			if m.m(a, i, k) {
				return true
			}
			if m.over {
				return false
			}
		}
		return false
	case kQuant:
		body := n.sub[0]
		if n.max == 1 {
			if n.lazy {
				return k(i) || (!m.over && m.m(body, i, k))
			}
			return m.m(body, i, k) || (!m.over && k(i))
		}
		var star func(i int) bool
		star = func(i int) bool {
			more := func() bool {
				return m.m(body, i, func(j int) bool {
					if j == i {
						return false // an empty iteration adds nothing
					}
					return star(j)
				})
			}
			if n.lazy {
				return k(i) || (!m.over && more())
			}
			return more() || (!m.over && k(i))
		}
		if n.min == 0 {
			return star(i)
		}
		return m.m(body, i, star)
	}
	panic("om.m")
}

func (m *om) cat(list []*node, i int, k func(int) bool) bool {
	if len(list) == 0 {
		return k(i)
	}
	return m.m(list[0], i, func(j int) bool { return m.cat(list[1:], j, k) })
}

var noCaps = func() (c caps) {
	for i := range c {
		c[i] = -1
	}
	return
}()

// at: anchored attempt at position i. ok=false with over=true means budget exhausted.
func (m *om) at(n *node, i int) (caps, bool) {
	m.cap = noCaps
	var res caps
	ok := m.m(n, i, func(j int) bool {
		res = m.cap
		res[0], res[1] = int32(i), int32(j)
		return true
	})
	return res, ok
}

// ownFirst: leftmost match starting at or after position start (whole string is context).
func ownFirst(n *node, s string, start int, opt omOpts) (c caps, ok bool, over bool) {
	m := &om{s: s, opt: opt, budget: 200000}
	for i := start; i <= len(s); i++ {
		c, ok = m.at(n, i)
		if m.over {
			return noCaps, false, true
		}
		if ok {
			return c, true, false
		}
	}
	return noCaps, false, false
}

// ownLast: the match starting at the largest position <= pos.
func ownLast(n *node, s string, pos int, opt omOpts) (c caps, ok bool, over bool) {
	m := &om{s: s, opt: opt, budget: 200000}
	for i := pos; i >= 0; i-- {
		c, ok = m.at(n, i)
		if m.over {
			return noCaps, false, true
		}
		if ok {
			return c, true, false
		}
	}
	return noCaps, false, false
}
