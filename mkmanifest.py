#!/usr/bin/env python3
"""Regenerates MANIFEST.json from checks.d/*.json (the single source for the
driver and the manifest). Properties without a check must be listed in
not_applicable.json."""
import json, glob, os
V = os.path.dirname(os.path.abspath(__file__))
props = [json.loads(l)["id"] for l in open(os.path.join(V, "properties.jsonl"))]
checks, engines = {}, {}
for p in sorted(glob.glob(os.path.join(V, "checks.d", "*.json"))):
    eng = os.path.basename(p)[:-5]
    for k, v in json.load(open(p)).items():
        checks[k] = (eng, v)
        engines.setdefault(eng, []).append(k)
hooks = json.load(open(os.path.join(V, "hooks.json")))
na = json.load(open(os.path.join(V, "not_applicable.json")))
m = {
 "version": 1,
 "setup_cmd": "./check --setup",
 "hooks": hooks,
 "engines": [{"name": e, "path": "harness/" + checks[ids[0]][1]["pkg"], "serves_properties": sorted(ids),
              "kind_free_text": "Go test package using pgregory.net/rapid (stateful/model-based PBT) and native go fuzzing; see DESIGN.md"}
             for e, ids in sorted(engines.items())],
 "checks": [],
 "notes": "Every check is './check <ID> <tier>' (python3 driver): builds harness/<pkg> against /repo's working tree with -tags verif and an embed overlay for the git-ignored TLS pair, runs TestCxx (sharded by seed in thorough), merges evidence. Exit 2 = inconclusive. See DESIGN.md.",
 "not_applicable": [x for x in na if x["property_id"] not in checks],
}
for pid in props:
    if pid not in checks:
        continue
    eng, v = checks[pid]
    m["checks"].append({
        "property_id": pid,
        "quick_cmd": "./check %s quick" % pid,
        "thorough_cmd": "./check %s thorough" % pid,
        "evidence_file": "/verif/evidence/%s.json" % pid,
        "replay_cmd_template": "./check --replay {path}",
        "engine": eng,
        "level_claimed": {"category": v.get("level", "exploration"), "text": v["level_text"], "design_ref": v.get("design_ref", "DESIGN.md §4")},
        "level_note": v["level_note"],
        "technique": v["technique"],
    })
missing = [p for p in props if p not in checks and p not in [x["property_id"] for x in na]]
if missing:
    raise SystemExit("properties neither claimed nor in not_applicable.json: %s" % missing)
json.dump(m, open(os.path.join(V, "MANIFEST.json"), "w"), indent=1)
print("MANIFEST.json: %d checks, %d not_applicable" % (len(m["checks"]), len(m["not_applicable"])))
