#!/usr/bin/env python3
"""prints the prompt for an independent 'seeded breakage' agent for property <ID> (worktree /tmp/seed-<ID>-<n>)"""
import json, sys
pid, n = sys.argv[1], (sys.argv[2] if len(sys.argv) > 2 else "1")
for l in open('/verif/properties.jsonl'):
    p = json.loads(l)
    if p['id'] == pid:
        break
wt = "/tmp/seed-%s-%s" % (pid, n)
avoid = ""
import os
for k in range(1, int(n)):
    m = "/verif/seeded/%s-%d/meta.json" % (pid, k)
    if os.path.exists(m):
        try:
            avoid += "\n  - " + json.load(open(m)).get("summary", "")[:600]
        except Exception:
            pass
if avoid:
    avoid = "\nAnother person has already done the following change(s) for this property; choose a DIFFERENT mechanism, in a different function and preferably a different file or layer of the system:" + avoid + "\n"
print(f"""You are testing a verification effort from the outside. You work ONLY in the git worktree {wt} (a checkout of the Go project apmckinlay/gsuneido: the gSuneido language compiler and interpreter plus its embedded transactional database, btree indexes, query optimizer and client/server DBMS). Do NOT read or touch /verif or /repo (the worktree is your copy). 

Property that must hold for every input / schedule / history:
  {p['title']}
  {p['statement']}
  (quantified over: {p['quantifier']['text']})

Task: make ONE realistic change to the non-test source (the kind of slip, wrong boundary, dropped step or incomplete refactoring a developer could plausibly commit; roughly 1-15 changed lines, possibly two cooperating sites that each look fine alone) that BREAKS this property while the project still compiles and its existing tests still pass. The break must need something specific to manifest — a particular interleaving, a crash/fault at a particular point, a multi-step sequence of operations, an unusual input or boundary value, or a specific combination of features — NOT something ordinary use would expose at once. Explore the code to find where the property is actually implemented before choosing.{avoid} Then write a demonstration: a new Go test file (in the appropriate package of the worktree) or a small program that FAILS with your change and PASSES without it.

Deliverables, in {wt}/SEED/ :
  patch.diff      `git diff` of the source change only (no test files, no cert files)
  demo files      the demonstration test/program (also leave it in place in the worktree), and demo_cmd.txt with the exact command to run it from the worktree root
  meta.json       {{"property":"{pid}","summary":"...","needs_to_manifest":"...","files_changed":[...],"how_verified":"..."}}

You must verify all of this yourself:
 1. `go build ./...` succeeds. Packages dbms, builtin, tests, the root package and the tests of core need the git-ignored files dbms/server.crt and dbms/server.key: copy them from /tmp/seedtools/certs/ into {wt}/dbms/ (never put them in the patch).
 2. The existing tests still pass with your change: run `VERIF_REPO={wt} python3 /tmp/seedtools/baseline_cmp.py ./<affected package dirs>/...` — it runs go test on those packages and compares with the project's pinned list of stable tests; it must print no "NOT PASSING" line. (Some packages have unrelated pre-existing failures, e.g. tests needing a missing suneido.db; the script accounts for that. Do not run plain `go test ./db19/` — it contains a 2 GB test; use -run/-skip or the script.) Also run the changed package's own unit tests before and after your change and make sure you introduce no new failure.
 3. The demonstration fails with the change and passes without it (save the change with `git diff > /tmp/<your-worktree-name>.diff`, undo it with `git apply -R`, run, re-apply with `git apply`; do NOT use `git stash`: the stash is shared between all worktrees of the repository and other jobs use it concurrently).
Environment: `export GOFLAGS=-mod=mod GOPROXY=off` in every shell call; do not set GOSUMDB or GOTOOLCHAIN; there is no network. The machine is shared with other jobs: be economical (target packages, -run filters, no repeated full runs).
Do not commit. Final message: what you changed and why it breaks the property, what it needs to manifest, and the verification results.""")
