//go:build verif

// Stress reproduction of the lost wakeup in db19/repair.go (scanner.getUpTo /
// scanner.scanner). Copy to /repo/db19/ (package db19) and run
//
//	go test -tags verif -run TestRepairLostWakeup -count=1 ./db19
//
// several times in parallel on a busy machine. Each Repair of an image that
// holds no state-shaped record should return "repair failed - no valid states
// found"; occasionally a call never returns: the caller is parked in
// sync.Cond.Wait (getUpTo) and the scanner goroutine has already exited.
// Observed 2-3 times per ~65 000 such calls in `./check C05 thorough`
// (16 processes), see the goroutine dumps next to this file.
package db19

import (
	"fmt"
	"os"
	"path/filepath"
	"runtime/pprof"
	"sync/atomic"
	"testing"
	"time"
)

func TestRepairLostWakeup(t *testing.T) {
	dir := t.TempDir()
	old, _ := os.Getwd()
	os.Chdir(dir)
	defer os.Chdir(old)
	img := append([]byte(magic), []byte("no state record in here")...)
	var calls atomic.Int64
	var started [8]atomic.Int64
	for w := range started {
		go func(w int) {
			f := filepath.Join(dir, fmt.Sprintf("w%d.db", w))
			for {
				os.Remove(f)
				os.WriteFile(f, img, 0o644)
				started[w].Store(time.Now().UnixNano())
				Repair(f, nil)
				started[w].Store(0)
				calls.Add(1)
			}
		}(w)
	}
	// each call leaks a 64 MB mapping (mmapStor never unmaps): stay below vm.max_map_count
	for calls.Load() < 55000 {
		time.Sleep(time.Second)
		for w := range started {
			if st := started[w].Load(); st != 0 && time.Since(time.Unix(0, st)) > 120*time.Second {
				pprof.Lookup("goroutine").WriteTo(os.Stderr, 1)
				t.Fatalf("Repair has not returned for 120 s (after %d calls): lost wakeup in scanner.getUpTo", calls.Load())
			}
		}
	}
	t.Logf("no hang in %d calls (the race is rare: run again / in parallel / under load)", calls.Load())
}
