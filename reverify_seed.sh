#!/bin/bash
# reverify_seed.sh <seed-id> "<file:destdir> ..." <baseline pkgs...>
# re-creates a scratch worktree of /repo HEAD, applies seeded/<id>/patch.diff, copies the demo files in place,
# runs the demo with and without the change and the baseline comparison; removes the worktree.
id=$1; demos=$2; shift 2
W=/tmp/vseed-$id
export GOFLAGS=-mod=mod GOPROXY=off
git -C /repo worktree add --detach $W HEAD -q || exit 2
cp /verif/certs/server.crt /verif/certs/server.key $W/dbms/
for d in $demos; do f=${d%%:*}; dest=${d##*:}; cp /verif/seeded/$id/$f $W/$dest/; done
cd $W && git apply /verif/seeded/$id/patch.diff || { echo "PATCH DOES NOT APPLY"; }
cmd=$(grep -v '^#' /verif/seeded/$id/demo_cmd.txt | grep -v '^$' | tail -1)
echo "##### $id: $cmd"
mkdir -p $W/tmp
echo "--- with change:"; (TMPDIR=$W/tmp eval "$cmd") 2>&1 | grep -E "^(--- FAIL|FAIL|ok|PASS|panic)" | head -4
git apply -R /verif/seeded/$id/patch.diff
echo "--- without change:"; (TMPDIR=$W/tmp eval "$cmd") 2>&1 | grep -E "^(--- FAIL|FAIL|ok|PASS|panic)" | head -4
git apply /verif/seeded/$id/patch.diff
echo "--- baseline with change:"; TMPDIR=$W/tmp VERIF_REPO=$W python3 /tmp/seedtools/baseline_cmp.py "$@" 2>&1 | tail -3
cd /; git -C /repo worktree remove --force $W
