#!/bin/bash
# runall.sh [tier] : runs every registered check once, prints one line per check
tier=${1:-quick}
cd /verif
for id in $(./check --list | awk '{print $1}'); do
  s=$(date +%s)
  out=$(./check $id $tier 2>&1); rc=$?
  e=$(( $(date +%s) - s ))
  line=$(echo "$out" | grep -E "^property=" | tail -1)
  nk=$(echo "$out" | grep -c "^KNOWN-FINDING")
  echo "$id rc=$rc ${e}s known=$nk | $line"
  if [ $rc -ne 0 ]; then echo "$out" | grep -E "VIOLATION|INCONCL|rapid\] (failed|panic)" | cut -c1-300 | head -5; fi
done
