#!/bin/bash
# seedtest.sh <ID> [n] : runs ./check <ID> quick against a scratch worktree of /repo HEAD with seeded/<ID>-<n>/patch.diff applied
# (VERIF_REPO), so that /repo itself is never modified and concurrent check runs are not disturbed. Removes the worktree and the
# replay files the failing run produced. Evidence written by this run is restored from git afterwards.
id=$1; n=${2:-1}
W=/tmp/st-$id-$n
cd /verif
git -C /repo worktree add --detach $W HEAD -q || exit 2
git -C $W apply /verif/seeded/$id-$n/patch.diff || { echo "PATCH DOES NOT APPLY"; git -C /repo worktree remove --force $W; exit 2; }
cp evidence/$id.json /tmp/st-$id-ev.json 2>/dev/null
ls replay > /tmp/st-$id-before.txt
VERIF_NO_EVIDENCE=1 VERIF_REPO=$W ./check $id quick 2>&1 | grep -E "^property=|VIOLATION|INCONCL|rapid\] (failed|panic)" | cut -c1-300 | head -5
cp /tmp/st-$id-ev.json evidence/$id.json 2>/dev/null; rm -f /tmp/st-$id-ev.json
git -C /repo worktree remove --force $W
# remove only the replay files this run created
ls replay | grep "^${id}__" | while read f; do grep -qxF "$f" /tmp/st-$id-before.txt || rm -f "replay/$f"; done
rm -f /tmp/st-$id-before.txt
