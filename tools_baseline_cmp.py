#!/usr/bin/env python3
"""Runs `go test -json` for the given packages of /repo (guard off) and reports
which tests of BASELINE.json's stable_pass set did not pass. Usage:
  tools_baseline_cmp.py ./db19/... ./util/...      (default ./...)
VERIF_REPO=<worktree> runs it there instead of /repo."""
import json, subprocess, sys, os
pk = sys.argv[1:] or ["./..."]
b = json.load(open("/root/.vp/BASELINE.json"))
stable = set(b["stable_pass"])
env = dict(os.environ, GOFLAGS="-mod=mod", GOPROXY="off")
env.pop("GOSUMDB", None); env.pop("GOTOOLCHAIN", None)
p = subprocess.run(["go", "test", "-json", "-vet=off", "-count=1", "-timeout", "25m"] + pk, cwd=os.environ.get("VERIF_REPO", "/repo"), env=env, capture_output=True, text=True)
res = {}
pkgs = set()
for line in p.stdout.splitlines():
    try:
        e = json.loads(line)
    except Exception:
        continue
    if e.get("Test") and e.get("Action") in ("pass", "fail", "skip"):
        res[e["Package"] + "::" + e["Test"]] = e["Action"]
    if e.get("Package"):
        pkgs.add(e["Package"])
want = [t for t in stable if t.split("::")[0] in pkgs]
bad = [t for t in want if res.get(t) != "pass"]
print("packages run: %d, stable tests in them: %d, passed: %d" % (len(pkgs), len(want), len(want) - len(bad)))
for t in sorted(bad):
    print("NOT PASSING:", t, res.get(t))
sys.exit(1 if bad else 0)
