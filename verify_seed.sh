#!/bin/bash
# verify_seed.sh <worktree> <pkgs for baseline...> : confirms a seeded change in its worktree:
# demo fails with the change, passes without it, baseline stable tests of the given packages pass.
W=$1; shift
export GOFLAGS=-mod=mod GOPROXY=off
cd $W || exit 2
cmd=$(grep -v '^#' SEED/demo_cmd.txt | grep -v '^$' | tail -1)
echo "demo cmd: $cmd"
echo "--- with change:"; (eval "$cmd") 2>&1 | grep -E "^(--- FAIL|FAIL|ok|PASS|panic)" | head -5
files=$(git diff --name-only)
# (git stash is shared between worktrees: use a diff file instead)
d=$(mktemp /tmp/vs-XXXXXX.diff)
git diff > $d
git apply -R $d
echo "--- without change:"; (eval "$cmd") 2>&1 | grep -E "^(--- FAIL|FAIL|ok|PASS|panic)" | head -5
git apply $d; rm -f $d
echo "--- changed files: $files"
echo "--- baseline:"; VERIF_REPO=$W python3 /tmp/seedtools/baseline_cmp.py "$@" 2>&1 | tail -4
